// TRUSTED dependency contract: hashbrown::raw 0.14.5 as griddle uses it (DESIGN.md 4.3).
// Written from hashbrown's source; safety comments and debug assertions are preconditions.
// Every function here is `external_body`: nothing in this file is proved, it is assumed, and
// model/conformance/ tests each clause against the real crate.
// A clause that matters for classification carries a trailing tag:  //@ <name> <props>
verus! {

// ---------- trusted std specs (vstd lacks these) ----------
pub assume_specification<T> [core::mem::replace::<T>] (dest: &mut T, src: T) -> (r: T)
    ensures *final(dest) == src, r == *old(dest);

pub assume_specification<T: Default> [core::mem::take::<T>] (dest: &mut T) -> (r: T)
    ensures r == *old(dest), call_ensures(T::default, (), *final(dest));

pub assume_specification<T, U, F: FnOnce(T) -> U> [Option::<T>::map_or] (o: Option<T>, default: U, f: F) -> (r: U)
    requires o matches Some(t) ==> f.requires((t,)),
    ensures match o { Some(t) => f.ensures((t,), r), None => r == default };

pub assume_specification<T, F: FnOnce() -> Option<T>> [Option::<T>::or_else] (o: Option<T>, f: F) -> (r: Option<T>)
    requires o.is_none() ==> f.requires(()),
    ensures match o { Some(t) => r == o, None => f.ensures((), r) };

// ---------- trusted model of hashbrown::raw (0.14.5) ----------
#[derive(Debug)]
pub enum TryReserveError { CapacityOverflow, AllocError }

pub struct TV<T> { pub id: int, pub buckets: nat, pub items: Map<int, T>, pub hashes: Map<int, u64>,
                   pub elems: Multiset<T>, pub growth_left: nat }
pub struct IV { pub table: int, pub remaining: Set<int> }
pub struct BV { pub table: int, pub idx: int }

pub open spec fn tv_inv<T>(v: TV<T>) -> bool {
    &&& v.items.len() + v.growth_left <= v.buckets
    &&& v.buckets <= isize::MAX
    &&& v.hashes.dom() == v.items.dom()
    &&& v.elems.len() == v.items.len()
    &&& forall|i: int| v.items.contains_key(i) ==> v.elems.count(#[trigger] v.items[i]) > 0
    // `elems` is by definition the multiset of the values of `items`: whatever it contains sits in some bucket
    &&& forall|x: T| #[trigger] v.elems.count(x) > 0 ==> exists|i: int| #[trigger] v.items.contains_key(i) && v.items[i] == x
}
pub open spec fn tv_empty<T>(v: TV<T>) -> bool {
    v.items == Map::<int,T>::empty() && v.hashes == Map::<int,u64>::empty() && v.elems == Multiset::<T>::empty()
}
/// the table is the same allocation with the same number of buckets
pub open spec fn tv_same_shape<T>(a: TV<T>, b: TV<T>) -> bool { a.id == b.id && a.buckets == b.buckets }
/// a rehash/resize: same values, nothing known about where they are
pub open spec fn tv_rehashed<T>(a: TV<T>, b: TV<T>) -> bool { a.elems == b.elems && a.items.len() == b.items.len() }

/// every element is stored under the hash that `h` computes for it (what a later rehash / lookup relies on)
pub open spec fn hashed_by<T, H: Fn(&T) -> u64>(tv: TV<T>, h: H) -> bool {
    forall|i: int| tv.items.contains_key(i) ==> h.ensures((&#[trigger] tv.items[i],), tv.hashes[i])
}
/// every occupied bucket of `a` is an occupied bucket of `b` with the same element and the same stored hash
pub open spec fn tv_sub<T>(a: TV<T>, b: TV<T>) -> bool {
    forall|i: int| #[trigger] a.items.contains_key(i) ==> b.items.contains_key(i) && a.items[i] == b.items[i] && a.hashes[i] == b.hashes[i]
}
/// hash budget (C02): the hasher is only known to be applicable to the elements of `c` -- code that receives a hasher
/// under this precondition can hash stored elements, and nothing else (in particular not a key that is being added)
pub open spec fn hashes_stored<T, H: Fn(&T) -> u64>(c: Multiset<T>, h: H) -> bool {
    forall|t: &T| c.count(*t) > 0 ==> #[trigger] h.requires((t,))
}
/// `e` answered false on every element of the table stored under `hash`
pub open spec fn rejects_all<T, E: FnMut(&T) -> bool>(e: E, tv: TV<T>, hash: u64) -> bool {
    forall|i: int| tv.items.contains_key(i) && tv.hashes[i] == hash ==> e.ensures((&#[trigger] tv.items[i],), false)
}
/// the table was searched under `hash` by some closure of the caller's closure type and nothing matched
/// (an `FnMut` passed as `&mut eq` to an earlier lookup cannot be related to its later value, so the
/// closure is existentially quantified: this is what "the old table was consulted" can say)
pub open spec fn searched<T, E: FnMut(&T) -> bool>(e: E, tv: TV<T>, hash: u64) -> bool {
    exists|e1: E| #[trigger] rejects_all(e1, tv, hash)
}

/// A closure lent to hashbrown's `find` as `&mut eq` comes back as it was: `find` only calls it (it has no other value
/// of the closure's type to put in its place), and a closure within the verifier's subset has no mutable state.
/// Invoked at exactly one place: after the main-table lookup of `RawTable::find`, for the closure value before / after.
#[verifier::external_body]
pub proof fn axiom_lent_closure_unchanged<A, F: FnMut(&A) -> bool>(before: F, after: F)
    ensures forall|a: &A, o: bool| before.ensures((a,), o) == after.ensures((a,), o),
            forall|a: &A| before.requires((a,)) == after.requires((a,)),
{ }

#[verifier::external_body] #[verifier::accept_recursive_types(T)] pub struct HbTable<T> { _p: core::marker::PhantomData<T> }
#[verifier::external_body] #[verifier::accept_recursive_types(T)] pub struct HbBucket<T> { _p: core::marker::PhantomData<T> }
#[verifier::external_body] #[verifier::accept_recursive_types(T)] pub struct HbIter<T> { _p: core::marker::PhantomData<T> }
#[verifier::external_body] #[verifier::accept_recursive_types(T)] pub struct HbIntoIter<T> { _p: core::marker::PhantomData<T> }
#[verifier::external_body] #[verifier::accept_recursive_types(T)] pub struct HbDrain<'a, T> { _p: core::marker::PhantomData<&'a mut T> }
#[verifier::external_body] pub struct HbSlot { _p: usize }

impl<T> HbBucket<T> {
    pub uninterp spec fn view(&self) -> BV;
    /// dereferences are opaque to the verifier (assumption ledger item 5)
    #[verifier::external_body]
    pub unsafe fn as_mut<'a>(&self) -> &'a mut T { unimplemented!() }
    #[verifier::external_body]
    pub unsafe fn as_ref<'a>(&self) -> &'a T { unimplemented!() }
}
/// hashbrown `Bucket::as_ref` / `Bucket::as_mut` with the table the bucket points into made explicit (extraction rule
/// R21): a bucket is a pointer to slot `idx` of the table `b@.table`, so the dereference reads / writes exactly that
/// slot. That the slot is occupied and belongs to `t` is a precondition (hashbrown: "the bucket must be full / the
/// table must outlive the reference"); the write through the returned `&mut` changes that slot and nothing else
/// (control bytes, stored hash, growth_left are untouched).
#[verifier::external_body]
pub fn hb_ref<'a, T>(b: &HbBucket<T>, t: &'a HbTable<T>) -> (r: &'a T)
    requires
        t@.items.contains_key(b@.idx), //@ dep.deref.full C05,C12
        b@.table == t@.id, //@ dep.deref.table C05,C12
    ensures *r == t@.items[b@.idx],
{ unimplemented!() }
#[verifier::external_body]
pub fn hb_mut<'a, T>(b: &HbBucket<T>, t: &'a mut HbTable<T>) -> (r: &'a mut T)
    requires
        old(t)@.items.contains_key(b@.idx), //@ dep.deref_mut.full C05,C12
        b@.table == old(t)@.id, //@ dep.deref_mut.table C05,C12
    ensures *r == old(t)@.items[b@.idx],
        final(t)@ == tv_written(old(t)@, b@.idx, *final(r)),
{ unimplemented!() }
/// the table after slot `i` has been overwritten with `x` through a reference
pub open spec fn tv_written<T>(v: TV<T>, i: int, x: T) -> TV<T> {
    TV { items: v.items.insert(i, x), elems: v.elems.remove(v.items[i]).insert(x), ..v }
}
impl<T> Clone for HbBucket<T> {
    #[verifier::external_body]
    fn clone(&self) -> (r: Self) ensures r@ == self@ { unimplemented!() }
}
impl<T> HbIter<T> {
    pub uninterp spec fn view(&self) -> IV;
    /// hashbrown 3993: "should be called _before_ the removal is made"; 4074 `offset_from` => T must not be a ZST
    #[verifier::external_body]
    pub unsafe fn reflect_remove(&mut self, b: &HbBucket<T>)
        requires
            old(self)@.remaining.contains(b@.idx), //@ dep.reflect_remove.expected C05,C17
            b@.table == old(self)@.table, //@ dep.reflect_remove.table C05
            size_of::<T>() != 0, //@ dep.reflect_remove.nonzst C01,C05
        ensures final(self)@.remaining == old(self)@.remaining.remove(b@.idx), final(self)@.table == old(self)@.table,
    { unimplemented!() }
    /// hashbrown 4002: "does not guarantee that an insertion of a bucket with a greater index than the last one
    /// yielded will be reflected" -- measured: not reflected for the bucket at the iterator's head.
    #[verifier::external_body]
    pub unsafe fn reflect_insert(&mut self, b: &HbBucket<T>)
        requires
            !old(self)@.remaining.contains(b@.idx), //@ dep.reflect_insert.fresh C05
            b@.table == old(self)@.table, //@ dep.reflect_insert.table C05
            size_of::<T>() != 0, //@ dep.reflect_insert.nonzst C01,C05
        ensures final(self)@.table == old(self)@.table,
            final(self)@.remaining == old(self)@.remaining || final(self)@.remaining == old(self)@.remaining.insert(b@.idx),
    { unimplemented!() }
    #[verifier::external_body]
    pub fn size_hint(&self) -> (r: (usize, Option<usize>))
        ensures r.0 == self@.remaining.len(), r.1 == Some(self@.remaining.len() as usize), self@.remaining.len() <= isize::MAX,
    { unimplemented!() }
    /// ExactSizeIterator::len (provided method; exact because size_hint is)
    #[verifier::external_body]
    pub fn len(&self) -> (r: usize) ensures r == self@.remaining.len() { unimplemented!() }
}
impl<T> Iterator for HbIter<T> {
    type Item = HbBucket<T>;
    #[verifier::external_body]
    fn next(&mut self) -> (r: Option<HbBucket<T>>)
        ensures match r {
            Some(b) => old(self)@.remaining.contains(b@.idx) && b@.table == old(self)@.table
                 && final(self)@.remaining == old(self)@.remaining.remove(b@.idx)
                 && final(self)@.table == old(self)@.table,
            None => old(self)@.remaining =~= Set::<int>::empty() && final(self)@ == old(self)@,
        }
    { unimplemented!() }
}
impl<T> vstd::std_specs::iter::IteratorSpecImpl for HbIter<T> {
    open spec fn obeys_prophetic_iter_laws(&self) -> bool { false }
    uninterp spec fn remaining(&self) -> Seq<HbBucket<T>>;
    open spec fn will_return_none(&self) -> bool { false }
    open spec fn decrease(&self) -> Option<nat> { None }
    open spec fn peek(&self, i: int) -> Option<HbBucket<T>> { None }
}
impl<T> Clone for HbIter<T> {
    #[verifier::external_body]
    fn clone(&self) -> (r: Self) ensures r@ == self@ { unimplemented!() }
}
/// view of an owning iterator: the multiset of values it still owns
impl<T> HbIntoIter<T> {
    pub uninterp spec fn view(&self) -> Multiset<T>;
    #[verifier::external_body]
    pub fn iter(&self) -> (r: HbIter<T>) ensures r@.remaining.len() == self@.len() { unimplemented!() }
    #[verifier::external_body]
    pub fn next(&mut self) -> (r: Option<T>)
        ensures match r { Some(e) => old(self)@.count(e) > 0 && final(self)@ == old(self)@.remove(e),
                          None => old(self)@.len() == 0 && final(self)@ == old(self)@ }
    { unimplemented!() }
    #[verifier::external_body]
    pub fn size_hint(&self) -> (r: (usize, Option<usize>))
        ensures r.0 == self@.len(), r.1 == Some(self@.len() as usize), self@.len() <= isize::MAX
    { unimplemented!() }
    /// ExactSizeIterator::len (provided method; exact because size_hint is)
    #[verifier::external_body]
    pub fn len(&self) -> (r: usize) ensures r == self@.len() { unimplemented!() }
}
impl<T> HbDrain<'_, T> {
    pub uninterp spec fn view(&self) -> Multiset<T>;
    #[verifier::external_body]
    pub fn iter(&self) -> (r: HbIter<T>) ensures r@.remaining.len() == self@.len() { unimplemented!() }
    #[verifier::external_body]
    pub fn next(&mut self) -> (r: Option<T>)
        ensures match r { Some(e) => old(self)@.count(e) > 0 && final(self)@ == old(self)@.remove(e),
                          None => old(self)@.len() == 0 && final(self)@ == old(self)@ }
    { unimplemented!() }
    #[verifier::external_body]
    pub fn size_hint(&self) -> (r: (usize, Option<usize>))
        ensures r.0 == self@.len(), r.1 == Some(self@.len() as usize), self@.len() <= isize::MAX
    { unimplemented!() }
    /// ExactSizeIterator::len (provided method; exact because size_hint is)
    #[verifier::external_body]
    pub fn len(&self) -> (r: usize) ensures r == self@.len() { unimplemented!() }
}

/// `a` is an element-wise clone of `b` (same buckets, same control bytes)
pub uninterp spec fn clone_of<T>(a: TV<T>, b: TV<T>) -> bool;
/// `x` is what `Clone::clone` returned for `y`
pub open spec fn is_clone<T: Clone>(y: T, x: T) -> bool { call_ensures(T::clone, (&y,), x) }
/// every element of `a` is a clone of some element of `b` (C11: the copy holds nothing but clones of the source's elements)
pub open spec fn elems_cloned<T: Clone>(a: Multiset<T>, b: Multiset<T>) -> bool {
    forall|x: T| #[trigger] a.count(x) > 0 ==> exists|y: T| #[trigger] b.count(y) > 0 && is_clone(y, x)
}
/// a hasher is assumed to agree on a value and its clone (lawful Hash/Clone), so a cloned table is hashed like its source
#[verifier::external_body]
pub proof fn axiom_clone_hashed<T, H: Fn(&T) -> u64>(a: TV<T>, b: TV<T>, h: H)
    requires clone_of(a, b), hashed_by(b, h)
    ensures hashed_by(a, h)
{ }

/// Permission to reach hashbrown's "Hash table capacity overflow" panic. Uninterpreted and never provable: a function
/// may call a panicking allocation entry point only if its own contract lists this permission, i.e. only the calls
/// whose documentation announces the panic (with_capacity, reserve, insert, entry insertions) -- never try_reserve.
pub uninterp spec fn may_panic_on_capacity_overflow() -> bool;

/// hashbrown's internal invariants, available for every table value (trusted)
#[verifier::external_body]
pub proof fn axiom_tv_inv<T>(t: HbTable<T>) ensures tv_inv(t@) { }

impl<T> HbTable<T> {
    pub uninterp spec fn view(&self) -> TV<T>;
    #[verifier::external_body]
    pub const fn new() -> (r: Self) ensures tv_empty(r@), r@.growth_left == 0, r@.buckets == 1, tv_inv(r@) { unimplemented!() }
    /// returns only if the capacity was allocatable (else panics "Hash table capacity overflow"/aborts)
    #[verifier::external_body]
    pub fn with_capacity(c: usize) -> (r: Self)
        requires may_panic_on_capacity_overflow(), //@ dep.with_capacity.documented_panic C10,C01
        ensures tv_empty(r@), r@.growth_left >= c, c <= isize::MAX, tv_inv(r@) { unimplemented!() }
    #[verifier::external_body]
    pub fn try_with_capacity(c: usize) -> (r: Result<Self, TryReserveError>)
        ensures r matches Ok(t) ==> tv_empty(t@) && t@.growth_left >= c && c <= isize::MAX && tv_inv(t@) { unimplemented!() }
    #[verifier::external_body]
    pub fn len(&self) -> (r: usize) ensures r == self@.items.len(), r <= isize::MAX, tv_inv(self@) { unimplemented!() }
    #[verifier::external_body]
    pub fn capacity(&self) -> (r: usize) ensures r == self@.items.len() + self@.growth_left, r <= isize::MAX, tv_inv(self@) { unimplemented!() }
    #[verifier::external_body]
    pub fn buckets(&self) -> (r: usize) ensures r == self@.buckets { unimplemented!() }
    /// hashbrown 1035/3377: debug_assert!(is_bucket_full)
    #[verifier::external_body]
    pub unsafe fn erase(&mut self, item: HbBucket<T>)
        requires
            old(self)@.items.contains_key(item@.idx), //@ dep.erase.full C05,C17
            item@.table == old(self)@.id, //@ dep.erase.table C05,C12
        ensures final(self)@.items == old(self)@.items.remove(item@.idx),
                final(self)@.hashes == old(self)@.hashes.remove(item@.idx),
                final(self)@.elems == old(self)@.elems.remove(old(self)@.items[item@.idx]),
                tv_same_shape(final(self)@, old(self)@),
                final(self)@.growth_left >= old(self)@.growth_left,
                final(self)@.items.len() == old(self)@.items.len() - 1, tv_inv(final(self)@),
    { unimplemented!() }
    #[verifier::external_body]
    pub unsafe fn remove(&mut self, item: HbBucket<T>) -> (r: (T, HbSlot))
        requires
            old(self)@.items.contains_key(item@.idx), //@ dep.remove.full C05,C17
            item@.table == old(self)@.id, //@ dep.remove.table C05,C12
        ensures final(self)@.items == old(self)@.items.remove(item@.idx),
                final(self)@.hashes == old(self)@.hashes.remove(item@.idx),
                final(self)@.elems == old(self)@.elems.remove(r.0),
                tv_same_shape(final(self)@, old(self)@),
                final(self)@.growth_left >= old(self)@.growth_left,
                final(self)@.items.len() == old(self)@.items.len() - 1, tv_inv(final(self)@),
                r.0 == old(self)@.items[item@.idx],
    { unimplemented!() }
    #[verifier::external_body]
    pub fn clear(&mut self)
        ensures tv_empty(final(self)@), tv_same_shape(final(self)@, old(self)@),
                final(self)@.growth_left >= old(self)@.growth_left + old(self)@.items.len(), tv_inv(final(self)@),
    { unimplemented!() }
    /// hashbrown 1107-1168: resizes only if fewer buckets suffice for max(len, min_size)
    #[verifier::external_body]
    pub fn shrink_to(&mut self, min_size: usize, hasher: impl Fn(&T) -> u64)
        requires hashes_stored(old(self)@.elems, hasher),
        ensures tv_rehashed(final(self)@, old(self)@), tv_inv(final(self)@),
                final(self)@.buckets <= old(self)@.buckets,
                final(self)@.buckets == old(self)@.buckets ==> final(self)@ == old(self)@,
                final(self)@.buckets != old(self)@.buckets ==> final(self)@.items.len() + final(self)@.growth_left >= min_size,
                hashed_by(old(self)@, hasher) ==> hashed_by(final(self)@, hasher),
    { unimplemented!() }
    /// hashbrown 1173: no-op (and hasher unused) unless additional > growth_left
    #[verifier::external_body]
    pub fn reserve(&mut self, additional: usize, hasher: impl Fn(&T) -> u64)
        requires
            additional > old(self)@.growth_left ==> hashes_stored(old(self)@.elems, hasher), //@ dep.reserve.hasher C02,C17
            additional > old(self)@.growth_left ==> may_panic_on_capacity_overflow(), //@ dep.reserve.documented_panic C10,C01
        ensures additional <= old(self)@.growth_left ==> final(self)@ == old(self)@,
            final(self)@.growth_left >= additional, tv_rehashed(final(self)@, old(self)@), tv_inv(final(self)@),
            hashed_by(old(self)@, hasher) ==> hashed_by(final(self)@, hasher),
    { unimplemented!() }
    #[verifier::external_body]
    pub fn try_reserve(&mut self, additional: usize, hasher: impl Fn(&T) -> u64) -> (r: Result<(), TryReserveError>)
        requires additional > old(self)@.growth_left ==> hashes_stored(old(self)@.elems, hasher), //@ dep.try_reserve.hasher C02,C17
        ensures additional <= old(self)@.growth_left ==> final(self)@ == old(self)@ && r.is_ok(),
            r.is_ok() ==> final(self)@.growth_left >= additional, tv_rehashed(final(self)@, old(self)@), tv_inv(final(self)@),
            r.is_err() ==> final(self)@ == old(self)@,
            hashed_by(old(self)@, hasher) ==> hashed_by(final(self)@, hasher),
    { unimplemented!() }
    /// growing insert (hashbrown 1298): may rehash everything
    #[verifier::external_body]
    pub fn insert(&mut self, hash: u64, value: T, hasher: impl Fn(&T) -> u64) -> (r: HbBucket<T>)
        requires hashes_stored(old(self)@.elems, hasher), //@ dep.insert.hasher C02
        ensures final(self)@.items.len() == old(self)@.items.len() + 1, final(self)@.elems == old(self)@.elems.insert(value),
                tv_inv(final(self)@), r@.table == final(self)@.id, final(self)@.items.contains_key(r@.idx), final(self)@.items[r@.idx] == value,
                final(self)@.hashes[r@.idx] == hash,
                // elements that are rehashed are rehashed with `hasher`; the others keep their stored hash
                hashed_by(old(self)@, hasher) && hasher.ensures((&value,), hash) ==> hashed_by(final(self)@, hasher),
    { unimplemented!() }
    /// hashbrown 1360: needs a free slot; `growth_left -= special_is_empty(old_ctrl)` must not underflow
    #[verifier::external_body]
    pub unsafe fn insert_no_grow(&mut self, hash: u64, value: T) -> (r: HbBucket<T>)
        requires old(self)@.growth_left >= 1, //@ dep.insert_no_grow.room C04,C05,C17
        ensures tv_same_shape(final(self)@, old(self)@), tv_inv(final(self)@),
                !old(self)@.items.contains_key(r@.idx),
                final(self)@.items == old(self)@.items.insert(r@.idx, value),
                final(self)@.hashes == old(self)@.hashes.insert(r@.idx, hash),
                final(self)@.elems == old(self)@.elems.insert(value),
                final(self)@.items.len() == old(self)@.items.len() + 1,
                final(self)@.growth_left + 1 >= old(self)@.growth_left,
                final(self)@.growth_left <= old(self)@.growth_left,
                r@.table == old(self)@.id,
    { unimplemented!() }
    /// hashbrown 1339: like insert_no_grow, but gives the value back when there is no room
    #[verifier::external_body]
    pub fn try_insert_no_grow(&mut self, hash: u64, value: T) -> (r: Result<HbBucket<T>, T>)
        ensures match r {
            Ok(b) => tv_same_shape(final(self)@, old(self)@) && tv_inv(final(self)@) && !old(self)@.items.contains_key(b@.idx)
                && final(self)@.items == old(self)@.items.insert(b@.idx, value) && final(self)@.hashes == old(self)@.hashes.insert(b@.idx, hash)
                && final(self)@.elems == old(self)@.elems.insert(value) && final(self)@.items.len() == old(self)@.items.len() + 1
                && final(self)@.growth_left + 1 >= old(self)@.growth_left && final(self)@.growth_left <= old(self)@.growth_left && b@.table == old(self)@.id,
            Err(v) => final(self)@ == old(self)@ && v == value,
        }
    { unimplemented!() }
    /// hashbrown 1324: the growing insert, returning a reference instead of the bucket
    #[verifier::external_body]
    pub fn insert_entry(&mut self, hash: u64, value: T, hasher: impl Fn(&T) -> u64) -> (r: &mut T)
        requires hashes_stored(old(self)@.elems, hasher),
        ensures final(self)@.items.len() == old(self)@.items.len() + 1, final(self)@.elems == old(self)@.elems.insert(value), tv_inv(final(self)@),
                hashed_by(old(self)@, hasher) && hasher.ensures((&value,), hash) ==> hashed_by(final(self)@, hasher),
    { unimplemented!() }
    /// hashbrown 1263: find + remove
    #[verifier::external_body]
    pub fn remove_entry(&mut self, hash: u64, eq: impl FnMut(&T) -> bool) -> (r: Option<T>)
        ensures match r {
            Some(v) => old(self)@.elems.count(v) > 0 && final(self)@.elems == old(self)@.elems.remove(v) && final(self)@.items.len() == old(self)@.items.len() - 1
                && tv_same_shape(final(self)@, old(self)@) && tv_inv(final(self)@) && tv_sub(final(self)@, old(self)@),
            None => final(self)@ == old(self)@ && rejects_all(eq, old(self)@, hash),
        }
    { unimplemented!() }
    #[verifier::external_body]
    pub fn is_empty(&self) -> (r: bool) ensures r == (self@.items.len() == 0) { unimplemented!() }
    /// hashbrown 1380: removes, runs f on the value, puts the result back into the same slot (same ctrl, same growth_left)
    #[verifier::external_body]
    pub unsafe fn replace_bucket_with<F: FnOnce(T) -> Option<T>>(&mut self, bucket: HbBucket<T>, f: F) -> (r: bool)
        requires
            old(self)@.items.contains_key(bucket@.idx), //@ dep.replace_bucket_with.full C05,C17
            bucket@.table == old(self)@.id, //@ dep.replace_bucket_with.table C05,C12
            f.requires((old(self)@.items[bucket@.idx],)), //@ dep.replace_bucket_with.f C07
        ensures tv_same_shape(final(self)@, old(self)@), tv_inv(final(self)@),
            r ==> final(self)@.items.dom() == old(self)@.items.dom() && final(self)@.growth_left == old(self)@.growth_left
                  && final(self)@.hashes == old(self)@.hashes && final(self)@.items.len() == old(self)@.items.len()
                  && f.ensures((old(self)@.items[bucket@.idx],), Some(final(self)@.items[bucket@.idx]))
                  && (forall|i: int| i != bucket@.idx && old(self)@.items.contains_key(i) ==> final(self)@.items[i] == old(self)@.items[i])
                  && final(self)@.elems == old(self)@.elems.remove(old(self)@.items[bucket@.idx]).insert(final(self)@.items[bucket@.idx]),
            !r ==> final(self)@.items == old(self)@.items.remove(bucket@.idx) && final(self)@.growth_left >= old(self)@.growth_left
                  && final(self)@.hashes == old(self)@.hashes.remove(bucket@.idx)
                  && final(self)@.items.len() == old(self)@.items.len() - 1
                  && final(self)@.elems == old(self)@.elems.remove(old(self)@.items[bucket@.idx])
                  && f.ensures((old(self)@.items[bucket@.idx],), None),
    { unimplemented!() }
    /// Some(b): b is full and eq returned true on it. None: eq returned false on every element stored under `hash`.
    #[verifier::external_body]
    pub fn find(&self, hash: u64, eq: impl FnMut(&T) -> bool) -> (r: Option<HbBucket<T>>)
        ensures match r {
            Some(b) => b@.table == self@.id && self@.items.contains_key(b@.idx) && eq.ensures((&self@.items[b@.idx],), true),
            None => rejects_all(eq, self@, hash),
        }
    { unimplemented!() }
    /// hashbrown 1405/1414: `find` followed by a dereference of the bucket (the reference itself is opaque here)
    #[verifier::external_body]
    pub fn get(&self, hash: u64, eq: impl FnMut(&T) -> bool) -> (r: Option<&T>)
        ensures r.is_none() ==> rejects_all(eq, self@, hash),
    { unimplemented!() }
    #[verifier::external_body]
    pub fn get_mut(&mut self, hash: u64, eq: impl FnMut(&T) -> bool) -> (r: Option<&mut T>)
        ensures r.is_none() ==> rejects_all(eq, old(self)@, hash), final(self)@ == old(self)@,
    { unimplemented!() }
    #[verifier::external_body]
    pub unsafe fn iter(&self) -> (r: HbIter<T>)
        ensures r@.table == self@.id, r@.remaining == self@.items.dom()
    { unimplemented!() }
    /// no claim about `buckets`: if the RawDrain is forgotten the table stays the empty singleton
    #[verifier::external_body]
    pub fn drain(&mut self) -> (r: HbDrain<'_, T>)
        ensures r@ == old(self)@.elems, tv_empty(final(self)@), tv_inv(final(self)@),
    { unimplemented!() }
    /// hashbrown 1652: debug_assert_eq!(iter.len(), self.len()); the iterator must cover exactly what remains
    #[verifier::external_body]
    pub unsafe fn into_iter_from(self, iter: HbIter<T>) -> (r: HbIntoIter<T>)
        requires
            iter@.table == self@.id, //@ dep.into_iter_from.table C05
            iter@.remaining == self@.items.dom(), //@ dep.into_iter_from.covers C05,C08,C17
        ensures r@ == self@.elems
    { unimplemented!() }
}
impl<T> Default for HbTable<T> {
    /// hashbrown: `Default` is `new()`
    #[verifier::external_body]
    fn default() -> (r: Self) ensures tv_empty(r@), r@.growth_left == 0, r@.buckets == 1, tv_inv(r@) { unimplemented!() }
}
impl<T: Clone> Clone for HbTable<T> {
    #[verifier::external_body]
    fn clone(&self) -> (r: Self)
        ensures r@.items.len() == self@.items.len(), r@.growth_left == self@.growth_left, r@.buckets == self@.buckets, tv_inv(r@),
            // control bytes are copied: every clone sits where its original sat
            r@.hashes == self@.hashes, r@.items.dom() == self@.items.dom(), clone_of(r@, self@),
            // hashbrown clones bucket by bucket: the element in bucket i of the copy is the clone of the element in bucket i
            forall|i: int| #[trigger] r@.items.contains_key(i) ==> is_clone(self@.items[i], r@.items[i]),
            elems_cloned(r@.elems, self@.elems),
    { unimplemented!() }
}
impl<T: Clone> HbTable<T> {
    #[verifier::external_body]
    pub fn clone_from_with_hasher(&mut self, source: &Self, hasher: impl Fn(&T) -> u64)
        requires forall|t: &T| hasher.requires((t,)),
        ensures final(self)@.items.len() == source@.items.len(), tv_inv(final(self)@),
            // either the control bytes are copied (the source's stored hashes) or every clone is re-inserted with `hasher`
            hashed_by(source@, hasher) ==> hashed_by(final(self)@, hasher),
            // whichever path is taken, the destination ends up holding clones of the source's elements and nothing else
            elems_cloned(final(self)@.elems, source@.elems),
    { unimplemented!() }
}

} // verus!
