// TRUSTED assumptions about user-supplied trait implementations (assumption ledger item 3): nothing here is proved.
verus! {

/// the hash a BuildHasher `hb` computes for `q`: hashing is a deterministic function of the builder and the key
pub uninterp spec fn spec_hash<Q: ?Sized, S>(hb: S, q: &Q) -> u64;

/// the user's `Eq` between a lookup key `q` (borrowed form) and a stored key `k`: `q == k.borrow()`; deterministic
pub uninterp spec fn key_eq<Q: ?Sized, K>(q: &Q, k: &K) -> bool;

/// `Borrow`'s documented contract ("Hash and Eq on the borrowed form must match those for the key type") together with
/// `Hash`'s ("k1 == k2 => hash(k1) == hash(k2)"): keys that compare equal hash alike under one builder
#[verifier::external_body]
pub proof fn axiom_hash_consistent<Q: ?Sized, K, S>(hb: S)
    ensures forall|q: &Q, k: &K| #[trigger] key_eq::<Q, K>(q, k) ==> spec_hash::<Q, S>(hb, q) == spec_hash::<K, S>(hb, k)
{ }

/// `Eq` is an equivalence (its documented contract): two stored keys that both equal a lookup key equal each other,
/// and `==` on the key type itself is reflexive and symmetric
#[verifier::external_body]
pub proof fn axiom_key_eq_equivalence<Q: ?Sized, K>()
    ensures forall|q: &Q, a: &K, b: &K| #[trigger] key_eq::<Q, K>(q, a) && #[trigger] key_eq::<Q, K>(q, b) ==> key_eq::<K, K>(a, b),
            forall|q: &Q, a: &K, b: &K| #[trigger] key_eq::<Q, K>(q, a) && #[trigger] key_eq::<K, K>(a, b) ==> key_eq::<Q, K>(q, b),
            forall|a: &K, b: &K| #[trigger] key_eq::<K, K>(a, b) == key_eq::<K, K>(b, a),
            forall|a: &K| #[trigger] key_eq::<K, K>(a, a),
{ }

/// a cloned BuildHasher is assumed to hash like the original (Clone for HashMap relies on it)
#[verifier::external_body]
pub proof fn axiom_cloned_builder<K, S: Clone>(a: S, b: S)
    requires cloned(a, b)
    ensures forall|q: &K| spec_hash::<K, S>(a, q) == spec_hash::<K, S>(b, q)
{ }

/// a hasher is assumed to agree on a value and its clone (lawful Hash/Clone), element-wise form
#[verifier::external_body]
pub proof fn axiom_hasher_agrees_on_clone<T: Clone, H: Fn(&T) -> u64>(h: H, a: T, hash: u64)
    requires h.ensures((&a,), hash)
    ensures forall|b: T| #[trigger] call_ensures(T::clone, (&a,), b) ==> h.ensures((&b,), hash)
{ }

/// Extraction rule R22 materialises the phantom borrow of `map::Iter<'a, K, V>` (`marker: PhantomData<(&'a K, &'a V)>`) as a
/// ghost reference `marker: Ghost<&'a RawTable<(K, V)>>`, set where the iterator is built (`HashMap::iter`) to the table the
/// raw cursor was taken from. While such a shared borrow is live the table cannot change (Verus borrow-checks ghost
/// references like real ones), so a bucket of that table dereferences to the element the ghost reference sees. TRUSTED: that
/// the real iterator's buckets point into that table -- which is what its `PhantomData<&'a ..>` declares to rustc.
/// Conditional on purpose: nothing is promised about a bucket that is not an occupied bucket of `t`.
#[verifier::external_body]
pub fn bucket_ref_g<'a, T>(b: &Bucket<T>, t: Ghost<&'a RawTable<T>>) -> (r: &'a T)
    ensures t@.valid_bucket(*b) ==> *r == t@.elem(*b),
{ unsafe { b.as_ref() } }

/// Extraction rule R23: the closure literal `|(k, _)| g(k)` (it forwards the key of a stored pair to the caller's `FnMut` `g`)
/// as a combinator. Verus rejects a closure that captures a mutable borrow, so the two raw-entry `search` functions could only
/// be assumed; with the closure named, their bodies are verified. TRUSTED: the combinator's body IS that closure, and its
/// specification is `g`'s on the key.
#[verifier::external_body]
pub fn key_adapter<K, V, F: FnMut(&K) -> bool>(f: F) -> (r: impl FnMut(&(K, V)) -> bool)
    ensures forall|kv: &(K, V)| f.requires((&kv.0,)) ==> #[trigger] r.requires((kv,)),
            forall|kv: &(K, V), o: bool| #[trigger] r.ensures((kv,), o) ==> f.ensures((&kv.0,), o),
{ let mut f = f; move |kv: &(K, V)| f(&kv.0) }

/// `Iterator::size_hint` of a caller-supplied iterator (extraction rule R17 routes the call through this identity
/// wrapper because vstd's Iterator specification has no `size_hint`): the hint is advisory, so NOTHING is assumed
/// about the result -- every value, including (usize::MAX, None) and a wrong one, is possible.
#[verifier::external_body]
pub fn iter_size_hint<I: Iterator>(it: &I) -> (r: (usize, Option<usize>)) { it.size_hint() }

/// `<ahash::RandomState as Default>::default()` (the stand-in type is declared in contracts/prelude.rs): some builder,
/// nothing is assumed about it
impl Default for DefaultHashBuilder { #[verifier::external_body] fn default() -> Self { unimplemented!() } }

} // verus!
