//! Conformance tests of model/hashbrown_0_14_5.rs against the REAL hashbrown::raw 0.14.5 (debug assertions on).
//! Every clause of the trusted dependency contract that a proof relies on is checked here on concrete tables:
//! random tables with tombstones for the table functions, exhaustive fill patterns of small tables for the
//! iterator protocol. This is TESTING of an assumption: it does not turn the model into a proved artefact.
//!
//! usage: conformance [seed] [rounds]   -> prints one JSON line {"checks":N,"clauses":{...}} and exits 0, or panics.
use hashbrown::raw::{Bucket, RawIter, RawTable};
use std::collections::{BTreeMap, BTreeSet};
use std::panic::{catch_unwind, AssertUnwindSafe};

struct Rng(u64);
impl Rng {
    fn next(&mut self) -> u64 {
        self.0 ^= self.0 << 13;
        self.0 ^= self.0 >> 7;
        self.0 ^= self.0 << 17;
        self.0
    }
    fn below(&mut self, n: u64) -> u64 {
        self.next() % n
    }
}

/// hash function with many collisions in both the probe start (low bits) and the control byte (top 7 bits)
fn h(v: &u32) -> u64 {
    let x = (*v % 13) as u64;
    (x << 57) | (x * 3)
}

/// abstract view of a real table, as the model defines it
#[derive(Clone, PartialEq, Eq, Debug)]
struct TV {
    buckets: usize,
    items: BTreeMap<usize, u32>,
    growth_left: usize,
}
fn view(t: &RawTable<u32>) -> TV {
    let mut items = BTreeMap::new();
    unsafe {
        for b in t.iter() {
            let idx = t.bucket_index(&b);
            assert!(items.insert(idx, *b.as_ref()).is_none(), "iter yielded a bucket twice");
        }
    }
    assert_eq!(items.len(), t.len());
    TV { buckets: t.buckets(), items, growth_left: t.capacity() - t.len() }
}
fn elems(v: &TV) -> Vec<u32> {
    let mut e: Vec<u32> = v.items.values().cloned().collect();
    e.sort();
    e
}
fn tv_inv(v: &TV) {
    assert!(v.items.len() + v.growth_left <= v.buckets);
    assert!(v.buckets <= isize::MAX as usize);
}

struct Counter {
    checks: u64,
    clauses: BTreeMap<&'static str, u64>,
}
impl Counter {
    fn ok(&mut self, clause: &'static str, cond: bool) {
        assert!(cond, "model clause violated by the real hashbrown: {}", clause);
        self.checks += 1;
        *self.clauses.entry(clause).or_insert(0) += 1;
    }
}

/// a random table with tombstones: inserts and removals through the real API
fn random_table(rng: &mut Rng) -> RawTable<u32> {
    let cap = rng.below(40) as usize;
    let mut t = RawTable::with_capacity(cap);
    let n = rng.below(60);
    for _ in 0..n {
        let v = rng.below(200) as u32;
        if rng.below(4) == 0 {
            if let Some(b) = t.find(h(&v), |x| *x == v) {
                unsafe { t.erase(b) };
            }
        } else {
            t.insert(h(&v), v, h);
        }
    }
    t
}

fn table_clauses(rng: &mut Rng, c: &mut Counter) {
    // with_capacity
    let cap = rng.below(100) as usize;
    let t: RawTable<u32> = RawTable::with_capacity(cap);
    let v0 = view(&t);
    c.ok("with_capacity: empty", v0.items.is_empty());
    c.ok("with_capacity: growth_left >= c", v0.growth_left >= cap);
    tv_inv(&v0);
    let n: RawTable<u32> = RawTable::new();
    c.ok("new: empty, growth_left == 0, buckets == 1", n.len() == 0 && n.capacity() == 0 && n.buckets() == 1);

    let mut t = random_table(rng);
    let v0 = view(&t);
    tv_inv(&v0);
    c.ok("len == |items|", t.len() == v0.items.len());
    c.ok("capacity == |items| + growth_left", t.capacity() == v0.items.len() + v0.growth_left);

    // iter covers exactly the occupied buckets (checked inside view); find
    let probe = rng.below(200) as u32;
    match t.find(h(&probe), |x| *x == probe) {
        Some(b) => unsafe {
            let idx = t.bucket_index(&b);
            c.ok("find Some: bucket full and eq true", v0.items.get(&idx) == Some(&probe));
        },
        None => c.ok("find None: eq false on every element stored under hash", !v0.items.values().any(|x| *x == probe)),
    }
    // get / get_mut agree with find
    c.ok("get None => rejects_all", t.get(h(&probe), |x| *x == probe).is_some() == v0.items.values().any(|x| *x == probe));

    // hb_ref / hb_mut (extraction rule R21): dereferencing a full bucket reads that slot; a write through as_mut changes
    // that slot's value and nothing else (other slots, bucket count, growth_left, and the slot is still found under the
    // hash it was stored with when the new value hashes alike)
    {
        let mut t2 = random_table(rng);
        let w0 = view(&t2);
        if let Some((&idx, &val)) = w0.items.iter().nth(rng.below(w0.items.len().max(1) as u64) as usize) {
            let b = t2.find(h(&val), |x| *x == val).unwrap();
            let bidx = unsafe { t2.bucket_index(&b) };
            c.ok("hb_ref: *r == items[idx]", unsafe { *b.as_ref() } == w0.items[&bidx]);
            let newval = val % 13 + 13 * (1000 + rng.below(5) as u32); // same hash class (h depends on v % 13), not in the table
            unsafe { *b.as_mut() = newval };
            let w1 = view(&t2);
            let mut expect = w0.clone();
            expect.items.insert(bidx, newval);
            c.ok("hb_mut: final == tv_written(old, idx, *final(r))", w1 == expect);
            c.ok("hb_mut: stored hash untouched (still found under it)", t2.find(h(&val), |x| *x == newval).map(|b2| unsafe { t2.bucket_index(&b2) }) == Some(bidx));
            let _ = idx;
        }
    }
    // a closure lent to find as `&mut eq` is only called (axiom_lent_closure_unchanged): the second lookup with the same
    // closure value behaves like a lookup with a fresh copy of it
    {
        let t2 = random_table(rng);
        let probe2 = rng.below(200) as u32;
        let mut calls = 0u32;
        let mut eq = |x: &u32| { calls += 1; *x == probe2 };
        let first = t2.find(h(&probe2), &mut eq).map(|b| unsafe { t2.bucket_index(&b) });
        let second = t2.find(h(&probe2), eq).map(|b| unsafe { t2.bucket_index(&b) });
        let fresh = t2.find(h(&probe2), |x| *x == probe2).map(|b| unsafe { t2.bucket_index(&b) });
        c.ok("lent closure: same answers after being lent by &mut", first == second && second == fresh);
    }

    // insert_no_grow
    if v0.growth_left >= 1 {
        let val = 1000 + rng.below(50) as u32;
        let b = unsafe { t.insert_no_grow(h(&val), val) };
        let idx = unsafe { t.bucket_index(&b) };
        let v1 = view(&t);
        c.ok("insert_no_grow: fresh bucket", !v0.items.contains_key(&idx));
        let mut exp = v0.items.clone();
        exp.insert(idx, val);
        c.ok("insert_no_grow: items == old.insert(idx, value) (nothing else moved)", v1.items == exp);
        c.ok("insert_no_grow: same buckets", v1.buckets == v0.buckets);
        c.ok("insert_no_grow: growth_left' + 1 >= growth_left", v1.growth_left + 1 >= v0.growth_left);
        c.ok("insert_no_grow: growth_left' <= growth_left", v1.growth_left <= v0.growth_left);
        tv_inv(&v1);
    }
    // remove / erase
    let v0 = view(&t);
    if !v0.items.is_empty() {
        let k = rng.below(v0.items.len() as u64) as usize;
        let (idx, val) = v0.items.iter().nth(k).map(|(a, b)| (*a, *b)).unwrap();
        let b = unsafe { t.bucket(idx) };
        if rng.below(2) == 0 {
            let (got, _) = unsafe { t.remove(b) };
            c.ok("remove: returns items[idx]", got == val);
        } else {
            unsafe { t.erase(b) };
        }
        let v1 = view(&t);
        let mut exp = v0.items.clone();
        exp.remove(&idx);
        c.ok("remove/erase: items == old.remove(idx)", v1.items == exp);
        c.ok("remove/erase: same buckets", v1.buckets == v0.buckets);
        c.ok("remove/erase: growth_left' >= growth_left", v1.growth_left >= v0.growth_left);
        tv_inv(&v1);
    }
    // replace_bucket_with
    let v0 = view(&t);
    if !v0.items.is_empty() {
        let k = rng.below(v0.items.len() as u64) as usize;
        let (idx, val) = v0.items.iter().nth(k).map(|(a, b)| (*a, *b)).unwrap();
        let keep = rng.below(2) == 0;
        let b = unsafe { t.bucket(idx) };
        let mut seen = None;
        let r = unsafe {
            t.replace_bucket_with(b, |x| {
                seen = Some(x);
                if keep { Some(x) } else { None }
            })
        };
        let v1 = view(&t);
        c.ok("replace_bucket_with: f applied to items[idx]", seen == Some(val));
        if keep {
            c.ok("replace_bucket_with Some: r, same slot, same growth_left", r && v1 == v0);
        } else {
            let mut exp = v0.items.clone();
            exp.remove(&idx);
            c.ok("replace_bucket_with None: !r, items == old.remove(idx)", !r && v1.items == exp && v1.growth_left >= v0.growth_left && v1.buckets == v0.buckets);
        }
    }
    // reserve: identity and hasher unused when additional <= growth_left
    let v0 = view(&t);
    let add = rng.below(v0.growth_left as u64 + 1) as usize;
    t.reserve(add, |_| unreachable!("hasher called although additional <= growth_left"));
    c.ok("reserve(n <= growth_left): identity, hasher not called", view(&t) == v0);
    t.try_reserve(add, |_| unreachable!()).unwrap();
    c.ok("try_reserve(n <= growth_left): identity, Ok", view(&t) == v0);
    // reserve: growing
    let add = v0.growth_left + 1 + rng.below(30) as usize;
    t.reserve(add, h);
    let v1 = view(&t);
    c.ok("reserve: elems preserved", elems(&v1) == elems(&v0));
    c.ok("reserve: growth_left >= additional", v1.growth_left >= add);
    for (idx, val) in &v1.items {
        // every element is findable under the hash `hasher` computes for it (hashed_by after a rehash)
        let b = t.find(h(val), |x| x == val).expect("element lost by rehash");
        let _ = idx;
        let _ = b;
    }
    c.ok("reserve: hashed_by(hasher) preserved", true);
    tv_inv(&v1);
    // try_reserve overflow: Err and unchanged
    let r = t.try_reserve(usize::MAX - rng.below(5) as usize, h);
    c.ok("try_reserve: Err => unchanged", r.is_err() && view(&t) == v1);
    c.ok("try_with_capacity(> isize::MAX) is refused", RawTable::<u32>::try_with_capacity(isize::MAX as usize + 1 + rng.below(1000) as usize).is_err());
    let big = usize::MAX - rng.below(1000) as usize;
    c.ok("with_capacity(> isize::MAX) does not return", catch_unwind(|| RawTable::<u32>::with_capacity(big)).is_err());
    // shrink_to
    let v0 = view(&t);
    let min = rng.below(80) as usize;
    t.shrink_to(min, h);
    let v1 = view(&t);
    c.ok("shrink_to: elems preserved", elems(&v1) == elems(&v0));
    c.ok("shrink_to: never more buckets", v1.buckets <= v0.buckets);
    if v1.buckets == v0.buckets {
        c.ok("shrink_to: same buckets => unchanged", v1 == v0);
    } else {
        c.ok("shrink_to: resized => capacity >= min_size", v1.items.len() + v1.growth_left >= min);
    }
    tv_inv(&v1);
    // growing insert
    let v0 = view(&t);
    let val = 2000 + rng.below(50) as u32;
    let b = t.insert(h(&val), val, h);
    let idx = unsafe { t.bucket_index(&b) };
    let v1 = view(&t);
    let mut e0 = elems(&v0);
    e0.push(val);
    e0.sort();
    c.ok("insert: elems == old + value, value at the returned bucket", elems(&v1) == e0 && v1.items.get(&idx) == Some(&val));
    // clone: same buckets, same indices
    let cl = t.clone();
    c.ok("clone: same items at the same indices, same growth_left/buckets", view(&cl) == view(&t));
    let mut dst = random_table(rng);
    dst.clone_from_with_hasher(&t, h);
    c.ok("clone_from_with_hasher: same elems", elems(&view(&dst)) == elems(&view(&t)));
    for val in view(&dst).items.values() {
        assert!(dst.find(h(val), |x| x == val).is_some());
    }
    c.ok("clone_from_with_hasher: hashed_by(hasher)", true);
    // clear
    let v0 = view(&t);
    t.clear();
    let v1 = view(&t);
    c.ok("clear: empty, same buckets, growth_left >= old + len", v1.items.is_empty() && v1.buckets == v0.buckets && v1.growth_left >= v0.growth_left + v0.items.len());
    // drain / into_iter_from
    let mut t = random_table(rng);
    let v0 = view(&t);
    let mut got: Vec<u32> = t.drain().collect();
    got.sort();
    c.ok("drain: yields exactly elems, table empty afterwards", got == elems(&v0) && t.len() == 0);
    let t = random_table(rng);
    let v0 = view(&t);
    let it = unsafe { t.iter() };
    let mut got: Vec<u32> = unsafe { t.into_iter_from(it) }.collect();
    got.sort();
    c.ok("into_iter_from(iter covering the table): yields exactly elems", got == elems(&v0));
}


/// every element of the table is found under the hash `h` computes for it (the observable content of `hashed_by(tv, h)`:
/// the stored hash is a ghost of the model, what the real table exposes is that a lookup under that hash succeeds)
fn all_found(t: &RawTable<u32>) -> bool {
    view(t).items.values().all(|v| t.find(h(v), |x| x == v).is_some())
}

/// clauses of the model that table_clauses does not reach
fn more_table_clauses(rng: &mut Rng, c: &mut Counter) {
    let d: RawTable<u32> = Default::default();
    c.ok("Default::default: empty, growth_left == 0, buckets == 1", d.len() == 0 && d.capacity() == 0 && d.buckets() == 1);
    let mut t = random_table(rng);
    c.ok("is_empty == (|items| == 0)", t.is_empty() == view(&t).items.is_empty());
    // growing insert on a full table: everything is rehashed with `hasher`
    while t.capacity() > t.len() {
        let v = 3000 + rng.below(500) as u32;
        unsafe { t.insert_no_grow(h(&v), v) };
    }
    let v0 = view(&t);
    // growth_left == 0: refused unless the probe ends on a tombstone (then it is the Ok case, checked below as well)
    match t.try_insert_no_grow(h(&77), 77) {
        Err(v) => c.ok("try_insert_no_grow Err: value handed back, table unchanged", v == 77 && view(&t) == v0),
        Ok(b) => {
            let idx = unsafe { t.bucket_index(&b) };
            let v1 = view(&t);
            let mut exp = v0.items.clone();
            exp.insert(idx, 77);
            c.ok("try_insert_no_grow Ok: fresh bucket, items == old.insert(idx, value), same buckets, growth_left' in [growth_left - 1, growth_left]",
                 !v0.items.contains_key(&idx) && v1.items == exp && v1.buckets == v0.buckets && v1.growth_left + 1 >= v0.growth_left && v1.growth_left <= v0.growth_left);
        }
    }
    let v0 = view(&t);
    let val = 5000 + rng.below(50) as u32;
    let b = t.insert(h(&val), val, h);
    let idx = unsafe { t.bucket_index(&b) };
    let v1 = view(&t);
    c.ok("insert (growing): |items| + 1, value at the returned bucket", v1.items.len() == v0.items.len() + 1 && v1.items.get(&idx) == Some(&val));
    c.ok("insert (growing): hashed_by(hasher) preserved, new element stored under `hash`", all_found(&t));
    tv_inv(&v1);
    // try_insert_no_grow Ok
    let v0 = view(&t);
    if v0.growth_left >= 1 {
        let val = 6000 + rng.below(50) as u32;
        let b = t.try_insert_no_grow(h(&val), val).ok().expect("room but refused");
        let idx = unsafe { t.bucket_index(&b) };
        let v1 = view(&t);
        let mut exp = v0.items.clone();
        exp.insert(idx, val);
        c.ok("try_insert_no_grow Ok: fresh bucket, items == old.insert(idx, value), same buckets, growth_left' in [growth_left - 1, growth_left]",
             !v0.items.contains_key(&idx) && v1.items == exp && v1.buckets == v0.buckets && v1.growth_left + 1 >= v0.growth_left && v1.growth_left <= v0.growth_left);
        c.ok("try_insert_no_grow Ok: stored under `hash`", t.find(h(&val), |x| *x == val).is_some());
    }
    // insert_entry
    let v0 = view(&t);
    let val = 7000 + rng.below(50) as u32;
    let r = *t.insert_entry(h(&val), val, h);
    let v1 = view(&t);
    let mut e0 = elems(&v0);
    e0.push(val);
    e0.sort();
    c.ok("insert_entry: elems == old + value, reference designates the value", elems(&v1) == e0 && r == val);
    c.ok("insert_entry: hashed_by(hasher) preserved", all_found(&t));
    tv_inv(&v1);
    // remove_entry
    let v0 = view(&t);
    let probe = if rng.below(2) == 0 && !v0.items.is_empty() { *v0.items.values().nth(rng.below(v0.items.len() as u64) as usize).unwrap() } else { rng.below(200) as u32 };
    let present = v0.items.values().any(|x| *x == probe);
    match t.remove_entry(h(&probe), |x| *x == probe) {
        Some(v) => {
            let v1 = view(&t);
            let mut e0 = elems(&v0);
            let pos = e0.iter().position(|x| *x == v).expect("returned an element that was not stored");
            e0.remove(pos);
            c.ok("remove_entry Some: an element eq accepted, elems == old - v, same buckets", v == probe && elems(&v1) == e0 && v1.buckets == v0.buckets);
            c.ok("remove_entry Some: nothing else moved (tv_sub)", v1.items.iter().all(|(i, x)| v0.items.get(i) == Some(x)));
            c.ok("remove_entry Some: the others keep their stored hash", all_found(&t));
            tv_inv(&v1);
        }
        None => c.ok("remove_entry None: table unchanged, eq false on every element stored under hash", !present && view(&t) == v0),
    }
    // get_mut
    let v0 = view(&t);
    let probe = rng.below(200) as u32;
    let found = t.get_mut(h(&probe), |x| *x == probe).is_some();
    c.ok("get_mut: None <=> nothing equal stored; table unchanged", found == v0.items.values().any(|x| *x == probe) && view(&t) == v0);
    // erase / remove keep the stored hashes of the others
    if !v0.items.is_empty() {
        let idx = *v0.items.keys().nth(rng.below(v0.items.len() as u64) as usize).unwrap();
        unsafe { t.erase(t.bucket(idx)) };
        c.ok("remove/erase: the others keep their stored hash", all_found(&t));
    }
    // shrink_to / try_reserve keep hashed_by
    t.shrink_to(rng.below(40) as usize, h);
    c.ok("shrink_to: hashed_by(hasher) preserved", all_found(&t));
    let v0 = view(&t);
    let add = v0.growth_left + 1 + rng.below(30) as usize;
    let r = t.try_reserve(add, h);
    let v1 = view(&t);
    c.ok("try_reserve Ok: growth_left >= additional, elems preserved, hashed_by preserved", r.is_ok() && v1.growth_left >= add && elems(&v1) == elems(&v0) && all_found(&t));
    tv_inv(&v1);
    // clone keeps the stored hashes
    let cl = t.clone();
    c.ok("clone: stored hashes copied (every clone found under its hash)", all_found(&cl));
    // owning iterators, step by step
    let t = random_table(rng);
    let mut left = elems(&view(&t));
    let mut it = t.into_iter();
    loop {
        c.ok("RawIntoIter::size_hint/len exact at every step", it.size_hint() == (left.len(), Some(left.len())) && it.len() == left.len());
        c.ok("RawIntoIter::iter covers what is left", it.iter().len() == left.len());
        match it.next() {
            Some(v) => {
                let pos = left.iter().position(|x| *x == v);
                c.ok("RawIntoIter::next Some: an element still owned, removed from the rest", pos.is_some());
                left.remove(pos.unwrap());
            }
            None => {
                c.ok("RawIntoIter::next None: nothing left, fused", left.is_empty() && it.next().is_none());
                break;
            }
        }
    }
    let mut t = random_table(rng);
    let mut left = elems(&view(&t));
    {
        let mut dr = t.drain();
        loop {
            c.ok("RawDrain::size_hint/len exact at every step", dr.size_hint() == (left.len(), Some(left.len())) && dr.len() == left.len());
            c.ok("RawDrain::iter covers what is left", dr.iter().len() == left.len());
            match dr.next() {
                Some(v) => {
                    let pos = left.iter().position(|x| *x == v);
                    c.ok("RawDrain::next Some: an element still owned, removed from the rest", pos.is_some());
                    left.remove(pos.unwrap());
                }
                None => {
                    c.ok("RawDrain::next None: nothing left, fused", left.is_empty() && dr.next().is_none());
                    break;
                }
            }
        }
    }
    c.ok("drain: table empty and usable afterwards", t.len() == 0 && { t.insert(h(&1), 1, h); t.len() == 1 });
    // RawIter::len
    let t = random_table(rng);
    let it = unsafe { t.iter() };
    c.ok("RawIter::len == |remaining| (ExactSizeIterator)", it.len() == t.len());
}

/// the cached-iterator protocol as griddle uses it, on every fill pattern of an 8- and a 16-bucket table
fn iterator_protocol(rng: &mut Rng, c: &mut Counter, buckets_cap: usize) {
    let mut t: RawTable<u32> = RawTable::with_capacity(buckets_cap);
    let cap = t.capacity();
    let fill = 1 + rng.below(cap as u64) as usize;
    for i in 0..fill {
        let v = (rng.below(1000) as u32) * 16 + i as u32;
        unsafe { t.insert_no_grow(h(&v), v) };
    }
    // random removals first (tombstones)
    let v = view(&t);
    for (idx, _) in v.items.iter() {
        if rng.below(4) == 0 {
            unsafe { t.erase(t.bucket(*idx)) };
        }
    }
    let v0 = view(&t);
    let mut it: RawIter<u32> = unsafe { t.iter() };
    let mut remaining: BTreeSet<usize> = v0.items.keys().cloned().collect();
    c.ok("iter: size_hint == |remaining|", it.size_hint() == (remaining.len(), Some(remaining.len())));
    // interleave: next (carry), reflect_remove + erase/remove of a not-yet-yielded bucket, clone (iter())
    loop {
        match rng.below(4) {
            0 | 1 => match it.next() {
                Some(b) => {
                    let idx = unsafe { t.bucket_index(&b) };
                    c.ok("RawIter::next Some: a remaining, still-full bucket; remaining' == remaining - {idx}", remaining.remove(&idx));
                    let full = view(&t).items.contains_key(&idx);
                    c.ok("RawIter::next Some: bucket is full in the table", full);
                    unsafe { t.remove(b) }; // what carry does
                }
                None => {
                    c.ok("RawIter::next None: nothing remaining", remaining.is_empty());
                    c.ok("RawIter::next None: fused", it.next().is_none());
                    break;
                }
            },
            2 => {
                if !remaining.is_empty() {
                    let k = rng.below(remaining.len() as u64) as usize;
                    let idx = *remaining.iter().nth(k).unwrap();
                    let b: Bucket<u32> = unsafe { t.bucket(idx) };
                    unsafe {
                        it.reflect_remove(&b);
                        t.erase(b);
                    }
                    remaining.remove(&idx);
                    c.ok("reflect_remove(b) then erase(b): remaining' == remaining - {idx}", it.size_hint().0 == remaining.len());
                }
            }
            _ => {
                // the repaired replace_bucket_with protocol: clone, reflect_remove, put back in the same slot, restore the clone
                if !remaining.is_empty() {
                    let k = rng.below(remaining.len() as u64) as usize;
                    let idx = *remaining.iter().nth(k).unwrap();
                    let b: Bucket<u32> = unsafe { t.bucket(idx) };
                    let saved = it.clone();
                    unsafe { it.reflect_remove(&b) };
                    let occupied = unsafe { t.replace_bucket_with(b, |x| Some(x + 1)) };
                    assert!(occupied);
                    it = saved;
                    let cl = it.clone();
                    let yielded: BTreeSet<usize> = cl.map(|b| unsafe { t.bucket_index(&b) }).collect();
                    c.ok("clone + reflect_remove + same-slot put-back + restore: remaining unchanged", yielded == remaining);
                }
            }
        }
        let cl = it.clone();
        let yielded: BTreeSet<usize> = cl.map(|b| unsafe { t.bucket_index(&b) }).collect();
        c.ok("RawIter::clone: same remaining set; sync (remaining == occupied buckets not yet carried)", yielded == remaining);
        let occ: BTreeSet<usize> = view(&t).items.keys().cloned().collect();
        c.ok("sync: remaining == dom(items) when every yielded bucket is removed", occ == remaining);
    }
    c.ok("protocol ends with an empty table", t.len() == 0);
}

fn special_cases(c: &mut Counter) {
    // reflect_remove on a table of zero-sized elements panics (the model's nonzst precondition)
    let r = catch_unwind(AssertUnwindSafe(|| {
        let mut t: RawTable<()> = RawTable::with_capacity(4);
        let b = t.insert(0, (), |_| 0);
        let mut it = unsafe { t.iter() };
        unsafe { it.reflect_remove(&b) };
    }));
    c.ok("reflect_remove requires size_of::<T>() != 0 (panics for ZSTs)", r.is_err());
    // reflect_insert does not promise to reflect an insertion at the iterator's head: the model only allows either outcome
    let mut t: RawTable<u32> = RawTable::with_capacity(7);
    for v in 0..5u32 {
        unsafe { t.insert_no_grow(h(&v), v) };
    }
    let mut it = unsafe { t.iter() };
    let b = it.next().unwrap();
    let idx = unsafe { t.bucket_index(&b) };
    let before = it.size_hint().0;
    unsafe { it.reflect_insert(&t.bucket(idx)) };
    let after = it.size_hint().0;
    c.ok("reflect_insert: remaining' is remaining or remaining + {idx}", after == before || after == before + 1);
}

fn main() {
    let args: Vec<String> = std::env::args().collect();
    let seed: u64 = args.get(1).and_then(|s| s.parse().ok()).unwrap_or(1);
    let rounds: u64 = args.get(2).and_then(|s| s.parse().ok()).unwrap_or(2000);
    std::panic::set_hook(Box::new(|info| {
        let msg = info.to_string();
        if msg.contains("model clause violated") {
            eprintln!("{}", msg);
        }
    }));
    let mut rng = Rng(seed.wrapping_mul(0x9E37_79B9_7F4A_7C15) | 1);
    let mut c = Counter { checks: 0, clauses: BTreeMap::new() };
    for _ in 0..rounds {
        table_clauses(&mut rng, &mut c);
        more_table_clauses(&mut rng, &mut c);
        iterator_protocol(&mut rng, &mut c, 7);
        iterator_protocol(&mut rng, &mut c, 14);
        iterator_protocol(&mut rng, &mut c, 28);
    }
    special_cases(&mut c);
    let clauses: Vec<String> = c.clauses.iter().map(|(k, v)| format!("{:?}:{}", k, v)).collect();
    println!("{{\"seed\":{},\"rounds\":{},\"checks\":{},\"distinct_clauses\":{},\"clauses\":{{{}}}}}", seed, rounds, c.checks, c.clauses.len(), clauses.join(","));
}
