//! Reproductions of the defects found while designing the contracts (DESIGN.md section 6).
//! Each test states the property-level expectation; on the unrepaired tree it fails.
use griddle::{HashMap, HashSet};
use std::panic::{catch_unwind, AssertUnwindSafe};

/// D1: shrink_to_fit on a map whose old table was emptied by `retain` must leave room to finish
/// the (nominally pending) resize: the next insert must not panic.
#[test]
fn d1_retain_shrink_insert() {
    let mut m: HashMap<u64, u64> = HashMap::new();
    for i in 0..15 {
        m.insert(i, i);
    }
    // keep only the 7 keys that were inserted before growth was triggered *and already moved*:
    // whatever they are, keep exactly the first 7 yielded by iter() (main table comes first).
    let keep: Vec<u64> = m.iter().take(7).map(|(k, _)| *k).collect();
    m.retain(|k, _| keep.contains(k));
    assert_eq!(m.len(), 7);
    m.shrink_to_fit();
    for i in 100..140 {
        m.insert(i, i);
    }
    assert_eq!(m.len(), 47);
}

/// D2: try_reserve with a request that cannot possibly be met returns Err (both profiles),
/// never Ok with nothing reserved and never an arithmetic-overflow panic.
#[test]
fn d2_try_reserve_overflow() {
    let mut m: HashMap<u64, u64> = HashMap::new();
    for i in 0..10 {
        m.insert(i, i);
    }
    let r = catch_unwind(AssertUnwindSafe(|| m.try_reserve(usize::MAX - 5)));
    match r {
        Ok(Err(_)) => {}
        Ok(Ok(())) => panic!("try_reserve(usize::MAX-5) returned Ok; capacity = {}", m.capacity()),
        Err(_) => panic!("try_reserve(usize::MAX-5) panicked instead of returning Err"),
    }
    assert_eq!(m.len(), 10);
}

/// D3: a panicking replace_entry_with closure on an element still in the old table loses at
/// most that element and leaves len() == iter().count(), also after further inserts.
#[test]
fn d3_replace_entry_with_panic_in_old_table() {
    use griddle::hash_map::Entry;
    let mut m: HashMap<u64, u64> = HashMap::new();
    for i in 0..15 {
        m.insert(i, i);
    }
    // find a key that is still in the old table: the main-table part of iter() comes first, so
    // the last yielded key is in the old table while a resize is in flight.
    let k = *m.iter().last().unwrap().0;
    let r = catch_unwind(AssertUnwindSafe(|| {
        if let Entry::Occupied(o) = m.entry(k) {
            let _ = o.replace_entry_with(|_, _| -> Option<u64> { panic!("boom") });
        } else {
            unreachable!()
        }
    }));
    assert!(r.is_err());
    assert_eq!(m.len(), m.iter().count(), "len vs iter after caught panic");
    let before = m.len();
    for i in 1000..1040 {
        m.insert(i, i);
    }
    assert_eq!(m.len(), before + 40);
    assert_eq!(m.len(), m.iter().count());
}

/// D-ZST: a set of zero-sized elements survives a resize followed by a removal.
#[test]
fn dzst_unit_set_reserve_remove() {
    let mut s: HashSet<()> = HashSet::new();
    s.insert(());
    s.reserve(10);
    assert!(s.remove(&()));
    assert!(s.is_empty());
}

/// D-ZST, more histories: every operation that can remove an element while a resize would be in
/// flight, for zero-sized elements, in a loop over several rounds.
#[test]
fn dzst_histories() {
    use griddle::hash_map::Entry;
    for round in 0..6 {
        let mut s: HashSet<()> = HashSet::new();
        assert!(s.insert(()));
        s.reserve(10 + round);
        match round {
            0 => { assert!(s.remove(&())); }
            1 => { s.retain(|_| false); }
            2 => { assert_eq!(s.drain_filter(|_| true).count(), 1); }
            3 => { assert_eq!(s.take(&()), Some(())); }
            4 => { s.shrink_to_fit(); assert!(s.remove(&())); }
            _ => { assert!(s.try_reserve(100).is_ok()); assert!(s.remove(&())); }
        }
        assert!(s.is_empty());
        assert_eq!(s.iter().count(), 0);
        assert!(s.insert(()));
        assert_eq!(s.len(), 1);
    }
    let mut m: HashMap<(), ()> = HashMap::new();
    m.insert((), ());
    m.reserve(10);
    if let Entry::Occupied(o) = m.entry(()) {
        match o.replace_entry_with(|_, _| None) {
            Entry::Vacant(v) => { v.insert(()); }
            Entry::Occupied(_) => panic!("still occupied"),
        }
    } else {
        panic!("vacant");
    }
    assert_eq!(m.len(), 1);
    m.reserve(100);
    assert_eq!(m.remove(&()), Some(()));
    assert!(m.is_empty());
}

/// D5 (C17): `Extend::extend` on a non-empty map computed `(size_hint().0 + 1) / 2` unchecked. An iterator whose lower
/// size bound is usize::MAX (e.g. anything built on `0u64..`, or a source with a wrong hint) made a debug build panic with
/// "attempt to add with overflow" while a release build wrapped to 0, reserved nothing and went on inserting.
/// After the fix both profiles ask `reserve` for usize::MAX / 2 elements and get the documented capacity-overflow panic.
struct Lying(u8);
impl Iterator for Lying {
    type Item = (u8, u8);
    fn next(&mut self) -> Option<(u8, u8)> {
        if self.0 == 0 { None } else { self.0 -= 1; Some((self.0, self.0)) }
    }
    fn size_hint(&self) -> (usize, Option<usize>) { (usize::MAX, None) }
}
#[test]
fn d5_extend_size_hint_overflow() {
    let mut m: griddle::HashMap<u8, u8> = griddle::HashMap::new();
    m.insert(200, 1);
    let r = std::panic::catch_unwind(std::panic::AssertUnwindSafe(|| m.extend(Lying(2))));
    // the same outcome in both profiles: the documented capacity-overflow panic, contents untouched
    let msg = match r {
        Ok(()) => String::from("returned normally"),
        Err(e) => e.downcast_ref::<&str>().map(|s| s.to_string()).or(e.downcast_ref::<String>().cloned()).unwrap_or_default(),
    };
    assert!(msg.contains("capacity overflow"), "extend with a usize::MAX size hint: {}", msg);
    assert_eq!(m.len(), 1);
}
