// libcore's PROVIDED method `ExactSizeIterator::len`, materialised for griddle's three raw iterators so that it can be
// verified against griddle's own (proved) `size_hint` contracts instead of being assumed. libcore's text is
//     fn len(&self) -> usize { let (lower, upper) = self.size_hint(); assert_eq!(upper, Some(lower)); lower }
// (core/src/iter/traits/exact_size.rs); the source's `impl<T> ExactSizeIterator for RawIter<T> {}` is an empty impl
// that inherits exactly this body. The `assert_eq!` is spelled as a match because Verus has no `PartialEq` for `Option`.
verus! {

impl<T> ExactSizeIterator for raw::RawIter<T> {
    fn len(&self) -> (r: usize)
        ensures r == self.left(), //@ provided.rawiter.len C08,C14
    {
        let (lower, upper) = self.size_hint();
        match upper { Some(u) => { assert!(u == lower); } None => { assert!(false); } }
        lower
    }
}
impl<T> ExactSizeIterator for raw::RawIntoIter<T> {
    fn len(&self) -> (r: usize)
        ensures r == self.rest().len(), //@ provided.rawintoiter.len C08
    {
        let (lower, upper) = self.size_hint();
        match upper { Some(u) => { assert!(u == lower); } None => { assert!(false); } }
        lower
    }
}
impl<'a, T> ExactSizeIterator for raw::RawDrain<'a, T> {
    fn len(&self) -> (r: usize)
        ensures r == self.rest().len(), //@ provided.rawdrain.len C08
    {
        let (lower, upper) = self.size_hint();
        match upper { Some(u) => { assert!(u == lower); } None => { assert!(false); } }
        lower
    }
}

} // verus!
