// Whole-history lemmas (C03, C04) over the `step` relation that is literally a postcondition of
// RawTable::insert_no_grow / RawTable::insert, and small set lemmas used as proof hints. Proved, not assumed.
verus! {

/// removing the last element of the old table leaves nothing for a cursor that had already passed it
pub proof fn lemma_last_one(s: Set<int>, d: Set<int>, x: int)
    requires d.len() == 1, d.contains(x), s.subset_of(d), !s.contains(x)
    ensures s =~= Set::<int>::empty()
{
    let d2 = d.remove(x);
    assert(d2.len() == 0);
    if exists|j: int| s.contains(j) {
        let j = choose|j: int| s.contains(j);
        assert(d.contains(j));
        assert(d2.contains(j));
        assert(d2.remove(j).len() + 1 == d2.len());
    }
}

/// overwriting the value of a stored entry keeps "at most one entry per key"
pub proof fn lemma_unique_overwrite<K, V>(c: Multiset<(K, V)>, e: (K, V))
    requires kv_unique(c), c.count(e) > 0,
    ensures forall|v: V| kv_unique(#[trigger] c.remove(e).insert((e.0, v))) //@ lemma_unique_overwrite C01,C13
{
    axiom_key_eq_equivalence::<K, K>();
    assert forall|v: V| kv_unique(#[trigger] c.remove(e).insert((e.0, v))) by {
        let d = c.remove(e).insert((e.0, v));
        assert forall|x: (K, V)| #[trigger] d.count(x) <= 1 by {
            if x == (e.0, v) && c.count(x) > 0 && x != e { assert(key_eq::<K, K>(&x.0, &e.0)); }
        }
        assert forall|x: (K, V), y: (K, V)| #[trigger] d.count(x) > 0 && #[trigger] d.count(y) > 0 && key_eq::<K, K>(&x.0, &y.0) implies x == y by {
            if x != y {
                if x == (e.0, v) { assert(c.count(y) > 0); assert(key_eq::<K, K>(&e.0, &y.0)); assert(c.count(e) > 0); }
                else if y == (e.0, v) { assert(c.count(x) > 0); assert(key_eq::<K, K>(&x.0, &e.0)); }
                else { assert(c.count(x) > 0 && c.count(y) > 0); }
            }
        }
    }
}

/// replacing a stored entry's key by an equal key (and its value by any value) keeps "at most one entry per key"
pub proof fn lemma_unique_replace<K, V>(c: Multiset<(K, V)>, e: (K, V), k: K)
    requires kv_unique(c), c.count(e) > 0, key_eq::<K, K>(&k, &e.0),
    ensures forall|v: V| kv_unique(#[trigger] c.remove(e).insert((k, v))) //@ lemma_unique_replace C01,C13
{
    axiom_key_eq_equivalence::<K, K>();
    assert forall|v: V| kv_unique(#[trigger] c.remove(e).insert((k, v))) by {
        let d = c.remove(e).insert((k, v));
        // anything else in `c` whose key equals `k` would have a key equal to `e`'s, i.e. would be `e`
        assert forall|x: (K, V)| c.count(x) > 0 && key_eq::<K, K>(&x.0, &k) implies x == e by {
            assert(key_eq::<K, K>(&k, &x.0));
            assert(key_eq::<K, K>(&x.0, &e.0));
        }
        assert forall|x: (K, V)| #[trigger] d.count(x) <= 1 by {
            if x == (k, v) && c.count(x) > 0 && x != e { assert(key_eq::<K, K>(&x.0, &k)); }
        }
        assert forall|x: (K, V), y: (K, V)| #[trigger] d.count(x) > 0 && #[trigger] d.count(y) > 0 && key_eq::<K, K>(&x.0, &y.0) implies x == y by {
            if x != y {
                if x == (k, v) { assert(c.remove(e).count(y) > 0); assert(key_eq::<K, K>(&y.0, &k)); }
                else if y == (k, v) { assert(c.remove(e).count(x) > 0); assert(key_eq::<K, K>(&x.0, &k)); }
                else { assert(c.count(x) > 0 && c.count(y) > 0); }
            }
        }
    }
}

/// C11: a table made of clones of the main table's elements plus clones of the leftovers holds only clones of the contents
pub proof fn lemma_clone_pieces<T: Clone>(fin: Multiset<T>, t0: Multiset<T>, main: Multiset<T>, lo: Multiset<T>)
    requires elems_cloned(t0, main),
             forall|x: T| #[trigger] fin.count(x) > 0 ==> t0.count(x) > 0 || exists|y: T| #[trigger] lo.count(y) > 0 && is_clone(y, x),
    ensures elems_cloned(fin, main.add(lo)) //@ lemma_clone_pieces C11
{
    assert forall|x: T| #[trigger] fin.count(x) > 0 implies exists|y: T| #[trigger] main.add(lo).count(y) > 0 && is_clone(y, x) by {
        if t0.count(x) > 0 {
            let y = choose|y: T| #[trigger] main.count(y) > 0 && is_clone(y, x);
            assert(main.add(lo).count(y) > 0);
        } else {
            let y = choose|y: T| #[trigger] lo.count(y) > 0 && is_clone(y, x);
            assert(main.add(lo).count(y) > 0);
        }
    }
}

pub open spec fn st_cap(s: St) -> nat { s.n + s.g }
pub open spec fn st_len(s: St) -> nat { s.n + s.l }

/// leftovers remaining after k key-adding calls
pub open spec fn after(l: nat, k: nat) -> nat decreases k {
    if k == 0 { l } else { after((l - min_nat(R as nat, l)) as nat, (k - 1) as nat) }
}

pub proof fn lemma_after(l: nat, k: nat)
    ensures after(l, k) == l - min_nat(k * (R as nat), l) //@ lemma_after C03
    decreases k
{
    if k > 0 {
        let l1 = (l - min_nat(R as nat, l)) as nat;
        lemma_after(l1, (k - 1) as nat);
        assert((k - 1) * (R as nat) + (R as nat) == k * (R as nat)) by (nonlinear_arith);
    }
}

/// C03: a resize that leaves l elements behind is complete after ceil(l / R) key-adding calls
pub proof fn lemma_resize_completes(l: nat)
    ensures after(l, ceil_div(l, R as nat)) == 0 //@ lemma_resize_completes C03
{
    lemma_after(l, ceil_div(l, R as nat));
    assert(ceil_div(l, 8) * 8 >= l);
}

pub proof fn lemma_after_step(l: nat, k: nat)
    ensures after(l, k + 1) == after(l, k) - min_nat(R as nat, after(l, k))
    decreases k
{
    reveal_with_fuel(after, 3);
    if k > 0 { lemma_after_step((l - min_nat(R as nat, l)) as nat, (k - 1) as nat); }
}

/// C04: from a state with headroom and slack s = capacity - len, the next s fresh insertions never reach the
/// growing arm (growth_left >= 1 before each), capacity never decreases, and when all slack is used the old table is gone
#[verifier::spinoff_prover]
#[verifier::rlimit(80)]
pub proof fn lemma_headroom_suffices(s0: St, tr: Seq<St>)
    requires headroom(s0.g, s0.l), tr.len() >= 1, tr[0] == s0,
        forall|i: int| 0 <= i < tr.len() - 1 ==> step(#[trigger] tr[i], tr[i + 1]),
        tr.len() - 1 <= s0.g - s0.l,
    ensures
        forall|i: int| 0 <= i < tr.len() - 1 ==> (#[trigger] tr[i]).g >= 1, //@ lemma_headroom_suffices.no_grow C04
        forall|i: int| 0 <= i < tr.len() ==> st_cap(#[trigger] tr[i]) >= st_cap(s0), //@ lemma_headroom_suffices.capacity_monotone C04
        forall|i: int| 0 <= i < tr.len() ==> (#[trigger] tr[i]).g - tr[i].l >= (s0.g - s0.l) - i && tr[i].l == after(s0.l, i as nat), //@ lemma_headroom_suffices.slack C04,C03
        tr.len() - 1 == s0.g - s0.l ==> tr[tr.len() - 1].l == 0, //@ lemma_headroom_suffices.finishes C04,C03
    decreases tr.len()
{
    if tr.len() == 1 {
        if s0.g - s0.l == 0 { assert(ceil_div(s0.l, 8) == 0); assert(s0.l == 0); }
    } else {
        let pre = tr.subrange(0, tr.len() - 1);
        assert(forall|i: int| 0 <= i < pre.len() - 1 ==> step(#[trigger] pre[i], pre[i + 1])) by {
            assert forall|i: int| 0 <= i < pre.len() - 1 implies step(#[trigger] pre[i], pre[i + 1]) by { assert(pre[i] == tr[i]); assert(pre[i+1] == tr[i+1]); }
        }
        lemma_headroom_suffices(s0, pre);
        let k = tr.len() - 2;
        assert(pre[k] == tr[k]);
        assert(step(tr[k], tr[k + 1]));
        assert(tr[k].g - tr[k].l >= (s0.g - s0.l) - k);
        assert(tr[k].g >= 1);
        assert forall|i: int| 0 <= i < tr.len() - 1 implies (#[trigger] tr[i]).g >= 1 by { if i < k { assert(pre[i] == tr[i]); } }
        assert forall|i: int| 0 <= i < tr.len() implies st_cap(#[trigger] tr[i]) >= st_cap(s0) by { if i <= k { assert(pre[i] == tr[i]); } }
        assert forall|i: int| 0 <= i < tr.len() implies (#[trigger] tr[i]).g - tr[i].l >= (s0.g - s0.l) - i && tr[i].l == after(s0.l, i as nat) by {
            if i <= k { assert(pre[i] == tr[i]); } else { lemma_after_step(s0.l, k as nat); }
        }
        if tr.len() - 1 == s0.g - s0.l {
            let m = (tr.len() - 1) as nat;
            lemma_after(s0.l, m);
            assert(m >= ceil_div(s0.l, 8));
            assert(m * 8 >= s0.l) by (nonlinear_arith) requires m >= ceil_div(s0.l, 8), ceil_div(s0.l, 8) * 8 >= s0.l;
        }
    }
}

} // verus!
