// Abstract state and invariants of griddle's RawTable (DESIGN.md 4.4). Spec-only: no executable code.
verus! {

global size_of usize == 8;

pub open spec fn ceil_div(a: nat, b: nat) -> nat { ((a + b - 1) / (b as int)) as nat }
pub open spec fn min_nat(a: nat, b: nat) -> nat { if a <= b { a } else { b } }
/// the cached iterator of an old table expects exactly the buckets that are still occupied
pub open spec fn sync<T>(lo: OldTable<T>) -> bool {
    &&& lo.items@.table == lo.table@.id
    &&& lo.items@.remaining == lo.table@.items.dom()
    // hashbrown's RawIter cannot be told about removals of zero-sized elements (`reflect_remove` uses `offset_from`),
    // so a table of zero-sized elements must never be parked as leftovers
    &&& size_of::<T>() != 0
}
/// the main table can take every leftover element plus the insertions needed to move them
pub open spec fn headroom(g: nat, l: nat) -> bool { g >= l + ceil_div(l, R as nat) }
pub struct St { pub g: nat, pub l: nat, pub n: nat }
/// abstract effect of one key-adding call that does not grow
pub open spec fn step(a: St, b: St) -> bool {
    &&& b.l == a.l - min_nat(R as nat, a.l)
    &&& b.g + 1 + (a.l - b.l) >= a.g
    &&& b.g <= a.g
    &&& b.n == a.n + 1 + (a.l - b.l)
    &&& headroom(b.g, b.l)
}

impl<T> RawTable<T> {
    pub open spec fn abs(&self) -> St { St { g: self.table@.growth_left, l: self.lo_len(), n: self.table@.items.len() } }
    pub open spec fn lo_len(&self) -> nat { match self.leftovers { None => 0, Some(lo) => lo.table@.items.len() } }
    pub open spec fn total(&self) -> nat { self.table@.items.len() + self.lo_len() }
    pub open spec fn content(&self) -> Multiset<T> { match self.leftovers { None => self.table@.elems, Some(lo) => self.table@.elems.add(lo.table@.elems) } }
    pub open spec fn sync_ok(&self) -> bool { match self.leftovers { None => true, Some(lo) => sync(lo) } }
    pub open spec fn headroom_ok(&self) -> bool { self.leftovers.is_some() ==> headroom(self.table@.growth_left, self.lo_len()) }
    pub open spec fn progress_ok(&self) -> bool { self.leftovers.is_some() ==> self.table@.growth_left >= 1 }
    pub open spec fn wf(&self) -> bool { self.sync_ok() && self.headroom_ok() && self.progress_ok() }
    /// both tables store every element under the hash `h` computes for it
    pub open spec fn hashed_by_ok<H: Fn(&T) -> u64>(&self, h: H) -> bool {
        hashed_by(self.table@, h) && (self.leftovers matches Some(lo) ==> hashed_by(lo.table@, h))
    }
    /// nothing was added or moved: what is stored now was stored in `o` in the same bucket under the same hash
    pub open spec fn sub_of(&self, o: RawTable<T>) -> bool {
        tv_sub(self.table@, o.table@) && (self.leftovers matches Some(lo) ==> o.leftovers.is_some() && tv_sub(lo.table@, o.leftovers->0.table@))
    }
    pub open spec fn valid_bucket(&self, item: Bucket<T>) -> bool {
        if item.in_main { item.bucket@.table == self.table@.id && self.table@.items.contains_key(item.bucket@.idx) }
        else { self.leftovers.is_some() && item.bucket@.table == self.leftovers->0.table@.id && self.leftovers->0.table@.items.contains_key(item.bucket@.idx) }
    }
    pub open spec fn elem(&self, item: Bucket<T>) -> T {
        if item.in_main { self.table@.items[item.bucket@.idx] } else { self.leftovers->0.table@.items[item.bucket@.idx] }
    }
}
impl<T> RawIntoIter<T> {
    pub open spec fn rest(&self) -> Multiset<T> { match self.leftovers { Some(lo) => self.table@.add(lo@), None => self.table@ } }
}
impl<T> RawDrain<'_, T> {
    pub open spec fn rest(&self) -> Multiset<T> { match self.leftovers { Some(lo) => self.table@.add(lo@), None => self.table@ } }
}
impl<T> RawIter<T> {
    pub open spec fn left(&self) -> nat { self.table@.remaining.len() + (match self.leftovers { Some(li) => li@.remaining.len(), None => 0 }) }
}
/// C02: the per-call relocation quota of the production configuration
pub proof fn quota_is_eight() ensures R == 8 //@ quota_is_eight C02
{ }

} // verus!
verus! {
/// stand-in for the default type parameter of HashMap/HashSet (ahash::RandomState in the crate); never instantiated here
pub struct DefaultHashBuilder { }

impl<K, V> DrainFilterInner<'_, K, V> {
    /// the drain_filter cursor only points at buckets that are still occupied in the table it borrows
    pub open spec fn dfi_wf(&self) -> bool {
        &&& self.table.wf()
        &&& self.iter.table@.table == self.table.table@.id
        &&& self.iter.table@.remaining.subset_of(self.table.table@.items.dom())
        // once `remove` has freed the old table the cursor into it must have nothing left to visit
        &&& match self.iter.leftovers { Some(li) => li@.remaining =~= Set::<int>::empty()
                                                    || (self.table.leftovers.is_some() && li@.table == self.table.leftovers->0.table@.id
                                                        && li@.remaining.subset_of(self.table.leftovers->0.table@.items.dom())),
                                       None => true }
    }
}
} // verus!
verus! {
// ---- handle well-formedness (C12): an occupied handle designates a live element of the map it borrows
impl<'a, K, V, S> OccupiedEntry<'a, K, V, S> {
    pub open spec fn oe_wf(&self) -> bool { self.table.table.wf() && self.table.table.valid_bucket(self.elem) }
}
impl<'a, K, V, S> VacantEntry<'a, K, V, S> {
    pub open spec fn ve_wf(&self) -> bool { self.table.table.wf() }
}
impl<'a, K, V, S> Entry<'a, K, V, S> {
    pub open spec fn e_wf(&self) -> bool { match *self { Entry::Occupied(o) => o.oe_wf(), Entry::Vacant(v) => v.ve_wf() } }
    pub open spec fn e_total(&self) -> nat { match *self { Entry::Occupied(o) => o.table.table.total(), Entry::Vacant(v) => v.table.table.total() } }
}
impl<'a, K, V, S> RawOccupiedEntryMut<'a, K, V, S> {
    pub open spec fn roe_wf(&self) -> bool { self.table.wf() && self.table.valid_bucket(self.elem) }
}
impl<'a, K, V, S> RawVacantEntryMut<'a, K, V, S> {
    pub open spec fn rve_wf(&self) -> bool { self.table.wf() }
}
impl<'a, K, V, S> RawEntryMut<'a, K, V, S> {
    pub open spec fn re_wf(&self) -> bool { match *self { RawEntryMut::Occupied(o) => o.roe_wf(), RawEntryMut::Vacant(v) => v.rve_wf() } }
    pub open spec fn re_total(&self) -> nat { match *self { RawEntryMut::Occupied(o) => o.table.total(), RawEntryMut::Vacant(v) => v.table.total() } }
}
} // verus!
verus! {
// ---- map level: stored hashes are the hashes of the keys under the map's own hash builder (C01, C11, C14)
pub open spec fn table_hashed<K, V, S>(tv: TV<(K, V)>, hb: S) -> bool {
    forall|i: int| tv.items.contains_key(i) ==> tv.hashes[i] == spec_hash::<K, S>(hb, &(#[trigger] tv.items[i]).0)
}
/// both tables of `t` store every (k, v) under the hash `hb` computes for k
pub open spec fn raw_hashed<K, V, S>(t: RawTable<(K, V)>, hb: S) -> bool {
    table_hashed(t.table@, hb) && (t.leftovers matches Some(lo) ==> table_hashed(lo.table@, hb))
}
impl<K, V, S> HashMap<K, V, S> {
    pub open spec fn hashed(&self) -> bool { raw_hashed(self.table, self.hash_builder) }
}
impl<'a, K, V, S> VacantEntry<'a, K, V, S> {
    pub open spec fn hash_ok(&self) -> bool { self.hash == spec_hash::<K, S>(self.table.hash_builder, &self.key) }
}
} // verus!
verus! {
// ---- map-level iterator wrappers (C08): how many elements each wrapper still has to yield
impl<'a, K, V> map::Iter<'a, K, V> { pub open spec fn left(&self) -> nat { self.inner.left() } }
impl<'a, K, V> map::IterMut<'a, K, V> { pub open spec fn left(&self) -> nat { self.inner.left() } }
impl<'a, K, V> map::Keys<'a, K, V> { pub open spec fn left(&self) -> nat { self.inner.inner.left() } }
impl<'a, K, V> map::Values<'a, K, V> { pub open spec fn left(&self) -> nat { self.inner.inner.left() } }
impl<'a, K, V> map::ValuesMut<'a, K, V> { pub open spec fn left(&self) -> nat { self.inner.inner.left() } }
impl<K, V> map::IntoIter<K, V> { pub open spec fn left(&self) -> nat { self.inner.rest().len() } }
impl<'a, K, V> map::Drain<'a, K, V> { pub open spec fn left(&self) -> nat { self.inner.rest().len() } }
impl<T> RawIter<T> {
    /// the iterator covers exactly the occupied buckets of both tables of `t`
    pub open spec fn covers(&self, t: RawTable<T>) -> bool {
        &&& self.table@.table == t.table@.id && self.table@.remaining == t.table@.items.dom()
        &&& match t.leftovers { Some(lo) => self.leftovers.is_some() && self.leftovers->0@.table == lo.table@.id && self.leftovers->0@.remaining == lo.table@.items.dom(),
                                None => self.leftovers.is_none() }
    }
}
} // verus!
verus! {
impl<'a, K> set::Iter<'a, K> { pub open spec fn left(&self) -> nat { self.iter.left() } }
impl<K> set::IntoIter<K> { pub open spec fn left(&self) -> nat { self.iter.left() } }
impl<'a, K> set::Drain<'a, K> { pub open spec fn left(&self) -> nat { self.iter.left() } }
} // verus!
