// Abstract state and invariants of griddle's RawTable (DESIGN.md 4.4). Spec-only: no executable code.
verus! {

global size_of usize == 8;

pub open spec fn ceil_div(a: nat, b: nat) -> nat { ((a + b - 1) / (b as int)) as nat }
pub open spec fn min_nat(a: nat, b: nat) -> nat { if a <= b { a } else { b } }
/// the cached iterator of an old table expects exactly the buckets that are still occupied
pub open spec fn sync<T>(lo: OldTable<T>) -> bool {
    &&& lo.items@.table == lo.table@.id
    &&& lo.items@.remaining == lo.table@.items.dom()
    // hashbrown's RawIter cannot be told about removals of zero-sized elements (`reflect_remove` uses `offset_from`),
    // so a table of zero-sized elements must never be parked as leftovers
    &&& size_of::<T>() != 0
}
/// the main table can take every leftover element plus the insertions needed to move them
pub open spec fn headroom(g: nat, l: nat) -> bool { g >= l + ceil_div(l, R as nat) }
pub struct St { pub g: nat, pub l: nat, pub n: nat }
/// abstract effect of one key-adding call that does not grow
pub open spec fn step(a: St, b: St) -> bool {
    &&& b.l == a.l - min_nat(R as nat, a.l)
    &&& b.g + 1 + (a.l - b.l) >= a.g
    &&& b.g <= a.g
    &&& b.n == a.n + 1 + (a.l - b.l)
    &&& headroom(b.g, b.l)
}

impl<T> RawTable<T> {
    pub open spec fn abs(&self) -> St { St { g: self.table@.growth_left, l: self.lo_len(), n: self.table@.items.len() } }
    pub open spec fn lo_len(&self) -> nat { match self.leftovers { None => 0, Some(lo) => lo.table@.items.len() } }
    pub open spec fn total(&self) -> nat { self.table@.items.len() + self.lo_len() }
    pub open spec fn content(&self) -> Multiset<T> { match self.leftovers { None => self.table@.elems, Some(lo) => self.table@.elems.add(lo.table@.elems) } }
    pub open spec fn sync_ok(&self) -> bool { match self.leftovers { None => true, Some(lo) => sync(lo) } }
    pub open spec fn headroom_ok(&self) -> bool { self.leftovers.is_some() ==> headroom(self.table@.growth_left, self.lo_len()) }
    pub open spec fn progress_ok(&self) -> bool { self.leftovers.is_some() ==> self.table@.growth_left >= 1 }
    pub open spec fn wf(&self) -> bool { self.sync_ok() && self.headroom_ok() && self.progress_ok() }
    /// both tables store every element under the hash `h` computes for it
    pub open spec fn hashed_by_ok<H: Fn(&T) -> u64>(&self, h: H) -> bool {
        hashed_by(self.table@, h) && (self.leftovers matches Some(lo) ==> hashed_by(lo.table@, h))
    }
    /// nothing was added or moved: what is stored now was stored in `o` in the same bucket under the same hash
    pub open spec fn sub_of(&self, o: RawTable<T>) -> bool {
        tv_sub(self.table@, o.table@) && (self.leftovers matches Some(lo) ==> o.leftovers.is_some() && tv_sub(lo.table@, o.leftovers->0.table@))
    }
    pub open spec fn valid_bucket(&self, item: Bucket<T>) -> bool {
        if item.in_main { item.bucket@.table == self.table@.id && self.table@.items.contains_key(item.bucket@.idx) }
        else { self.leftovers.is_some() && item.bucket@.table == self.leftovers->0.table@.id && self.leftovers->0.table@.items.contains_key(item.bucket@.idx) }
    }
    pub open spec fn elem(&self, item: Bucket<T>) -> T {
        if item.in_main { self.table@.items[item.bucket@.idx] } else { self.leftovers->0.table@.items[item.bucket@.idx] }
    }
}
impl<T> RawIntoIter<T> {
    pub open spec fn rest(&self) -> Multiset<T> { match self.leftovers { Some(lo) => self.table@.add(lo@), None => self.table@ } }
}
impl<T> RawDrain<'_, T> {
    pub open spec fn rest(&self) -> Multiset<T> { match self.leftovers { Some(lo) => self.table@.add(lo@), None => self.table@ } }
}
impl<T> RawIter<T> {
    pub open spec fn left(&self) -> nat { self.table@.remaining.len() + (match self.leftovers { Some(li) => li@.remaining.len(), None => 0 }) }
}
/// C02: the per-call relocation quota of the production configuration
pub proof fn quota_is_eight() ensures R == 8 //@ quota_is_eight C02
{ }

} // verus!
verus! {
/// stand-in for the default type parameter of HashMap/HashSet (ahash::RandomState in the crate); never instantiated here
pub struct DefaultHashBuilder { }

impl<K, V> DrainFilterInner<'_, K, V> {
    /// the drain_filter cursor only points at buckets that are still occupied in the table it borrows
    pub open spec fn dfi_wf(&self) -> bool {
        &&& self.table.wf()
        &&& self.iter.table@.table == self.table.table@.id
        &&& self.iter.table@.remaining.subset_of(self.table.table@.items.dom())
        // once `remove` has freed the old table the cursor into it must have nothing left to visit
        &&& match self.iter.leftovers { Some(li) => li@.remaining =~= Set::<int>::empty()
                                                    || (self.table.leftovers.is_some() && li@.table == self.table.leftovers->0.table@.id
                                                        && li@.remaining.subset_of(self.table.leftovers->0.table@.items.dom())),
                                       None => true }
    }
}
} // verus!
verus! {
// ---- handle well-formedness (C12): an occupied handle designates a live element of the map it borrows
impl<'a, K, V, S> OccupiedEntry<'a, K, V, S> {
    pub open spec fn oe_wf(&self) -> bool { self.table.table.wf() && self.table.table.valid_bucket(self.elem) }
}
impl<'a, K, V, S> OccupiedEntry<'a, K, V, S> {
    /// the element the handle designates, as stored now
    pub open spec fn cur(&self) -> (K, V) { self.table.table.elem(self.elem) }
    /// the same handle on the same map, except that the designated element now holds `x`
    pub open spec fn rewritten(&self, o: Self, x: (K, V)) -> bool {
        self.elem == o.elem && self.key == o.key && self.hash == o.hash && self.table.hash_builder == o.table.hash_builder
        && self.table.table.written(o.table.table, o.elem, x)
    }
}
impl<'a, K, V, S> RawOccupiedEntryMut<'a, K, V, S> {
    pub open spec fn cur(&self) -> (K, V) { self.table.elem(self.elem) }
    pub open spec fn rewritten(&self, o: Self, x: (K, V)) -> bool {
        self.elem == o.elem && self.hash_builder == o.hash_builder && self.table.written(*o.table, o.elem, x)
    }
}
impl<'a, K, V, S> VacantEntry<'a, K, V, S> {
    pub open spec fn ve_wf(&self) -> bool { self.table.table.wf() }
}
impl<'a, K, V, S> Entry<'a, K, V, S> {
    pub open spec fn e_wf(&self) -> bool { match *self { Entry::Occupied(o) => o.oe_wf(), Entry::Vacant(v) => v.ve_wf() } }
    pub open spec fn e_total(&self) -> nat { match *self { Entry::Occupied(o) => o.table.table.total(), Entry::Vacant(v) => v.table.table.total() } }
}
impl<'a, K, V, S> RawOccupiedEntryMut<'a, K, V, S> {
    pub open spec fn roe_wf(&self) -> bool { self.table.wf() && self.table.valid_bucket(self.elem) }
}
impl<'a, K, V, S> RawVacantEntryMut<'a, K, V, S> {
    pub open spec fn rve_wf(&self) -> bool { self.table.wf() }
}
impl<'a, K, V, S> RawEntryMut<'a, K, V, S> {
    pub open spec fn re_wf(&self) -> bool { match *self { RawEntryMut::Occupied(o) => o.roe_wf(), RawEntryMut::Vacant(v) => v.rve_wf() } }
    pub open spec fn re_total(&self) -> nat { match *self { RawEntryMut::Occupied(o) => o.table.total(), RawEntryMut::Vacant(v) => v.table.total() } }
}
} // verus!
verus! {
// ---- map level: stored hashes are the hashes of the keys under the map's own hash builder (C01, C11, C14)
pub open spec fn table_hashed<K, V, S>(tv: TV<(K, V)>, hb: S) -> bool {
    forall|i: int| tv.items.contains_key(i) ==> tv.hashes[i] == spec_hash::<K, S>(hb, &(#[trigger] tv.items[i]).0)
}
/// both tables of `t` store every (k, v) under the hash `hb` computes for k
pub open spec fn raw_hashed<K, V, S>(t: RawTable<(K, V)>, hb: S) -> bool {
    table_hashed(t.table@, hb) && (t.leftovers matches Some(lo) ==> table_hashed(lo.table@, hb))
}
impl<K, V, S> HashMap<K, V, S> {
    pub open spec fn hashed(&self) -> bool { raw_hashed(self.table, self.hash_builder) }
    /// some stored key equals `q`
    pub open spec fn present<Q: ?Sized>(&self, q: &Q) -> bool {
        exists|b: Bucket<(K, V)>| #[trigger] self.table.valid_bucket(b) && key_eq::<Q, K>(q, &self.table.elem(b).0)
    }
    /// some stored pair has a key equal to `x`'s and a value equal (`PartialEq`) to `x`'s
    pub open spec fn has_equal(&self, x: (K, V)) -> bool where V: PartialEq {
        exists|b: Bucket<(K, V)>| #[trigger] self.table.valid_bucket(b) && key_eq::<K, K>(&x.0, &self.table.elem(b).0) && x.1.eq_spec(&self.table.elem(b).1)
    }
    /// no stored key equals `q`
    pub open spec fn absent<Q: ?Sized>(&self, q: &Q) -> bool { raw_absent::<Q, K, V>(self.table, q) }
    /// `self` is `o` with the element designated by `item` overwritten by `x` (same builder)
    pub open spec fn written(&self, o: Self, item: Bucket<(K, V)>, x: (K, V)) -> bool {
        self.hash_builder == o.hash_builder && self.table.written(o.table, item, x)
    }
    /// nothing observable differs (the tables' views, the cached iterator, the builder)
    pub open spec fn same(&self, o: Self) -> bool {
        self.hash_builder == o.hash_builder && self.table.table@ == o.table.table@ && self.table.leftovers == o.table.leftovers
    }
    /// at most one entry per key: the stored pairs are distinct and no two of them have equal keys
    pub open spec fn unique(&self) -> bool { kv_unique(self.table.content()) }
}
pub open spec fn tv_absent<Q: ?Sized, K, V>(tv: TV<(K, V)>, q: &Q) -> bool {
    forall|i: int| tv.items.contains_key(i) ==> !key_eq::<Q, K>(q, &(#[trigger] tv.items[i]).0)
}
pub open spec fn raw_absent<Q: ?Sized, K, V>(t: RawTable<(K, V)>, q: &Q) -> bool {
    forall|x: (K, V)| #[trigger] t.content().count(x) > 0 ==> !key_eq::<Q, K>(q, &x.0)
}
/// `f` answered false on the key of every pair stored under `hash`
pub open spec fn key_rejects_all<K, V, F: FnMut(&K) -> bool>(f: F, tv: TV<(K, V)>, hash: u64) -> bool {
    forall|i: int| tv.items.contains_key(i) && tv.hashes[i] == hash ==> f.ensures((&(#[trigger] tv.items[i]).0,), false)
}
pub open spec fn kv_unique<K, V>(c: Multiset<(K, V)>) -> bool {
    &&& forall|x: (K, V)| #[trigger] c.count(x) <= 1
    &&& forall|x: (K, V), y: (K, V)| #[trigger] c.count(x) > 0 && #[trigger] c.count(y) > 0 && key_eq::<K, K>(&x.0, &y.0) ==> x == y
}
impl<'a, K, V, S> VacantEntry<'a, K, V, S> {
    pub open spec fn hash_ok(&self) -> bool { self.hash == spec_hash::<K, S>(self.table.hash_builder, &self.key) }
}
} // verus!
verus! {
// ---- map-level iterator wrappers (C08): how many elements each wrapper still has to yield
impl<'a, K, V> map::Iter<'a, K, V> {
    pub open spec fn left(&self) -> nat { self.inner.left() }
    /// the table this iterator borrows (R22: the phantom borrow as a ghost reference)
    pub open spec fn src(&self) -> RawTable<(K, V)> { *self.marker@ }
    /// every bucket still to be yielded is an occupied bucket of the borrowed table
    pub open spec fn within(&self) -> bool { self.inner.within(self.src()) }
}
impl<T> RawIter<T> {
    pub open spec fn within(&self, t: RawTable<T>) -> bool {
        &&& self.table@.table == t.table@.id && self.table@.remaining.subset_of(t.table@.items.dom())
        &&& match self.leftovers { Some(li) => li@.remaining =~= Set::<int>::empty() || (t.leftovers.is_some() && li@.table == t.leftovers->0.table@.id
                                        && li@.remaining.subset_of(t.leftovers->0.table@.items.dom())), None => true }
    }
    /// `self` is `o` after yielding exactly bucket `b`
    pub open spec fn stepped(&self, o: Self, b: Bucket<T>) -> bool {
        &&& o.has(b) && !self.has(b)
        &&& forall|c: Bucket<T>| (c.in_main != b.in_main || c.bucket@.idx != b.bucket@.idx) ==> #[trigger] self.has(c) == o.has(c)
    }
    /// bucket `b` is still to be yielded
    pub open spec fn has(&self, b: Bucket<T>) -> bool {
        if b.in_main { self.table@.remaining.contains(b.bucket@.idx) } else { self.old_remaining().contains(b.bucket@.idx) }
    }
}
impl<'a, K, V> map::IterMut<'a, K, V> { pub open spec fn left(&self) -> nat { self.inner.left() } }
impl<'a, K, V> map::Keys<'a, K, V> {
    pub open spec fn left(&self) -> nat { self.inner.inner.left() }
    pub open spec fn src(&self) -> RawTable<(K, V)> { self.inner.src() }
    pub open spec fn within(&self) -> bool { self.inner.within() }
    pub open spec fn has(&self, b: Bucket<(K, V)>) -> bool { self.inner.inner.has(b) }
}
impl<'a, K, V> map::Values<'a, K, V> {
    pub open spec fn left(&self) -> nat { self.inner.inner.left() }
    pub open spec fn src(&self) -> RawTable<(K, V)> { self.inner.src() }
    pub open spec fn within(&self) -> bool { self.inner.within() }
    pub open spec fn has(&self, b: Bucket<(K, V)>) -> bool { self.inner.inner.has(b) }
}
impl<'a, K, V> map::ValuesMut<'a, K, V> { pub open spec fn left(&self) -> nat { self.inner.inner.left() } }
impl<K, V> map::IntoIter<K, V> { pub open spec fn left(&self) -> nat { self.inner.rest().len() } }
impl<'a, K, V> map::Drain<'a, K, V> { pub open spec fn left(&self) -> nat { self.inner.rest().len() } }
impl<T> RawIter<T> {
    /// the iterator covers exactly the occupied buckets of both tables of `t`
    pub open spec fn covers(&self, t: RawTable<T>) -> bool {
        &&& self.table@.table == t.table@.id && self.table@.remaining == t.table@.items.dom()
        &&& match t.leftovers { Some(lo) => self.leftovers.is_some() && self.leftovers->0@.table == lo.table@.id && self.leftovers->0@.remaining == lo.table@.items.dom(),
                                None => self.leftovers.is_none() }
    }
}
} // verus!
verus! {
impl<'a, K> set::Iter<'a, K> {
    pub open spec fn left(&self) -> nat { self.iter.left() }
    pub open spec fn src(&self) -> RawTable<(K, ())> { self.iter.src() }
    pub open spec fn within(&self) -> bool { self.iter.within() }
    pub open spec fn has(&self, b: Bucket<(K, ())>) -> bool { self.iter.has(b) }
}
impl<K> set::IntoIter<K> { pub open spec fn left(&self) -> nat { self.iter.left() } }
impl<'a, K> set::Drain<'a, K> { pub open spec fn left(&self) -> nat { self.iter.left() } }
} // verus!

verus! {
// ---- R21: dereferencing a griddle bucket = dereferencing its hashbrown bucket in the table `in_main` says it lives in.
// These two dispatchers are the only executable code of the prelude; they are VERIFIED against the trusted
// `hb_ref` / `hb_mut` of the dependency model (a wrong `in_main` flag fails `dep.deref.table`).
impl<T> RawTable<T> {
    /// `self` after the element designated by `item` has been overwritten with `x` through a reference: the slot-level
    /// equation, and what follows from it (proved once, in `bucket_mut`)
    pub open spec fn written(&self, o: RawTable<T>, item: Bucket<T>, x: T) -> bool {
        self.written_slot(o, item, x) && self.same_shape(o) && self.elem(item) == x
        && self.content() == o.content().remove(o.elem(item)).insert(x)
    }
    pub open spec fn written_slot(&self, o: RawTable<T>, item: Bucket<T>, x: T) -> bool {
        if item.in_main { self.table@ == tv_written(o.table@, item.bucket@.idx, x) && self.leftovers == o.leftovers }
        else { self.table@ == o.table@ && self.leftovers.is_some() && self.leftovers->0.items == o.leftovers->0.items
               && self.leftovers->0.table@ == tv_written(o.leftovers->0.table@, item.bucket@.idx, x) }
    }
    /// nothing structural differs: same buckets occupied, same stored hashes, same counters, same invariants
    pub open spec fn same_shape(&self, o: RawTable<T>) -> bool {
        &&& self.wf() == o.wf() && self.sync_ok() == o.sync_ok() && self.headroom_ok() == o.headroom_ok() && self.progress_ok() == o.progress_ok()
        &&& self.total() == o.total() && self.lo_len() == o.lo_len() && self.abs() == o.abs()
        &&& self.leftovers.is_some() == o.leftovers.is_some()
        &&& self.table@.id == o.table@.id && self.table@.hashes == o.table@.hashes && self.table@.items.dom() == o.table@.items.dom()
        &&& self.table@.growth_left == o.table@.growth_left && self.table@.buckets == o.table@.buckets
        &&& self.leftovers matches Some(lo) ==> lo.table@.id == o.leftovers->0.table@.id && lo.table@.hashes == o.leftovers->0.table@.hashes
                && lo.table@.items.dom() == o.leftovers->0.table@.items.dom() && lo.items@ == o.leftovers->0.items@
        &&& forall|b: Bucket<T>| #[trigger] self.valid_bucket(b) == o.valid_bucket(b)
    }
}
pub fn bucket_ref<'a, T>(b: &Bucket<T>, t: &'a RawTable<T>) -> (r: &'a T)
    requires t.valid_bucket(*b), //@ deref.valid C05,C12
    ensures *r == t.elem(*b),
{
    if b.in_main { hb_ref(&b.bucket, &t.table) }
    else { match t.leftovers { Some(ref lo) => hb_ref(&b.bucket, &lo.table), None => unreachable!() } }
}
/// overwriting an occupied slot changes neither the set of occupied slots nor (beyond the one element) the multiset
pub proof fn lemma_tv_written<T>(v: TV<T>, i: int)
    requires v.items.contains_key(i), tv_inv(v),
    ensures forall|x: T| (#[trigger] tv_written(v, i, x)).items.dom() == v.items.dom(),
            forall|x: T| (#[trigger] tv_written(v, i, x)).items.len() == v.items.len(),
            forall|x: T, m: Multiset<T>| (#[trigger] tv_written(v, i, x).elems.add(m)) == v.elems.add(m).remove(v.items[i]).insert(x),
            forall|x: T, m: Multiset<T>| (#[trigger] m.add(tv_written(v, i, x).elems)) == m.add(v.elems).remove(v.items[i]).insert(x),
{
    assert forall|x: T| (#[trigger] tv_written(v, i, x)).items.dom() == v.items.dom() by {
        assert(v.items.insert(i, x).dom() =~= v.items.dom());
    }
    assert(v.elems.count(v.items[i]) > 0);
    assert forall|x: T, m: Multiset<T>| (#[trigger] tv_written(v, i, x).elems.add(m)) == v.elems.add(m).remove(v.items[i]).insert(x) by {
        assert(v.elems.remove(v.items[i]).insert(x).add(m) =~= v.elems.add(m).remove(v.items[i]).insert(x));
    }
    assert forall|x: T, m: Multiset<T>| (#[trigger] m.add(tv_written(v, i, x).elems)) == m.add(v.elems).remove(v.items[i]).insert(x) by {
        assert(m.add(v.elems.remove(v.items[i]).insert(x)) =~= m.add(v.elems).remove(v.items[i]).insert(x));
    }
}
pub fn bucket_mut<'a, T>(b: &Bucket<T>, t: &'a mut RawTable<T>) -> (r: &'a mut T)
    requires old(t).valid_bucket(*b), //@ deref_mut.valid C05,C12
    ensures *r == old(t).elem(*b), final(t).written(*old(t), *b, *final(r)),
{
    proof {
        axiom_tv_inv(t.table);
        if t.leftovers.is_some() { axiom_tv_inv(t.leftovers->0.table); }
        if b.in_main { lemma_tv_written(t.table@, b.bucket@.idx); } else { lemma_tv_written(t.leftovers->0.table@, b.bucket@.idx); }
    }
    if b.in_main { hb_mut(&b.bucket, &mut t.table) }
    else { match t.leftovers { Some(ref mut lo) => hb_mut(&b.bucket, &mut lo.table), None => unreachable!() } }
}
} // verus!

verus! {
// ---- C09: what `retain(f)` / `drain_filter(f)` make of a table, slot by slot. `todo` is the set of slots the
// traversal has not reached yet (the cursor's `remaining`): those are untouched; every other slot of the original was
// shown to `f` with its original value, and is still there (with whatever `f` wrote) iff `f` answered `keep`.
/// `f`, shown the element `o`, answered `ans` and left `n` as its value
#[verifier::prophetic]
pub open spec fn answered<K, V, F: FnMut(&K, &mut V) -> bool>(f: F, o: (K, V), n: V, ans: bool) -> bool {
    exists|b: &mut V| *b == o.1 && *final(b) == n && #[trigger] f.ensures((&o.0, b), ans)
}
/// `f`, shown the element `o`, answered `ans` (the element is gone, so what `f` wrote does not matter)
#[verifier::prophetic]
pub open spec fn gone<K, V, F: FnMut(&K, &mut V) -> bool>(f: F, o: (K, V), ans: bool) -> bool {
    exists|b: &mut V| *b == o.1 && #[trigger] f.ensures((&o.0, b), ans)
}
#[verifier::prophetic]
pub open spec fn tv_filtered<K, V, F: FnMut(&K, &mut V) -> bool>(f: F, a: TV<(K, V)>, b: TV<(K, V)>, todo: Set<int>, keep: bool) -> bool {
    &&& a.items.dom().subset_of(b.items.dom())
    &&& forall|i: int| #[trigger] a.items.contains_key(i) ==> a.hashes[i] == b.hashes[i] && a.items[i].0 == b.items[i].0
    &&& forall|i: int| todo.contains(i) ==> #[trigger] a.items.contains_key(i) && a.items[i] == b.items[i]
    &&& forall|i: int| #[trigger] b.items.contains_key(i) && !todo.contains(i) ==>
            if a.items.contains_key(i) { answered(f, b.items[i], a.items[i].1, keep) } else { gone(f, b.items[i], !keep) }
}
/// one `DrainFilterInner::next` call: the slots the cursor passed in this call (`before` minus `after`) and that are still
/// there were shown to `f`, which answered `false` and left the value they hold now; every other slot is untouched
#[verifier::prophetic]
pub open spec fn tv_stepped<K, V, F: FnMut(&K, &mut V) -> bool>(f: F, a: TV<(K, V)>, b: TV<(K, V)>, before: Set<int>, after: Set<int>) -> bool {
    &&& a.items.dom().subset_of(b.items.dom())
    &&& forall|i: int| #[trigger] a.items.contains_key(i) ==> a.hashes[i] == b.hashes[i] && a.items[i].0 == b.items[i].0
    &&& forall|i: int| #[trigger] b.items.contains_key(i) && !(before.contains(i) && !after.contains(i)) ==> a.items.contains_key(i) && a.items[i] == b.items[i]
    &&& forall|i: int| #[trigger] a.items.contains_key(i) && before.contains(i) && !after.contains(i) ==> answered(f, b.items[i], a.items[i].1, false)
}
impl<T> RawIter<T> {
    pub open spec fn old_remaining(&self) -> Set<int> { match self.leftovers { Some(li) => li@.remaining, None => Set::<int>::empty() } }
}
#[verifier::prophetic]
pub open spec fn raw_filtered<K, V, F: FnMut(&K, &mut V) -> bool>(f: F, a: RawTable<(K, V)>, b: RawTable<(K, V)>, it: RawIter<(K, V)>, keep: bool) -> bool {
    &&& tv_filtered(f, a.table@, b.table@, it.table@.remaining, keep)
    &&& match b.leftovers {
            Some(blo) => a.leftovers.is_some() && tv_filtered(f, a.leftovers->0.table@, blo.table@,
                             (match it.leftovers { Some(li) => li@.remaining, None => Set::<int>::empty() }), keep),
            None => a.leftovers.is_none() }
}
} // verus!
