#[test]
fn kani_concrete_playback_entry_insert_replace_none_5713818363465657676() {
    let concrete_vals: Vec<Vec<u8>> = vec![
    ];
    kani::concrete_playback_run(concrete_vals, entry_insert_replace_none);
}
