//! Bounded Kani harnesses on the REAL griddle + hashbrown code (small configuration: `--cfg miri`
//! => griddle R = 4 and hashbrown's portable 8-wide groups). Bounded stand-ins only: never counted as proof.
#![allow(dead_code)]
use core::hash::{BuildHasher, Hasher};
use griddle::{HashMap, HashSet};

/// identity-like hasher with per-instance state (`seed` is xor-ed in), so two builders can disagree
#[derive(Clone, Copy, Default)]
pub struct Seeded(pub u64);
pub struct SeededHasher(u64, u64);
impl Hasher for SeededHasher {
    fn finish(&self) -> u64 {
        // spread the low bits into the top 7 bits hashbrown uses for its control bytes
        let x = self.1 ^ self.0;
        x.wrapping_mul(0x0101_0101_0101_0101)
    }
    fn write(&mut self, bytes: &[u8]) {
        for b in bytes {
            self.1 = (self.1 << 8) | (*b as u64);
        }
    }
    fn write_u8(&mut self, i: u8) {
        self.1 = i as u64;
    }
}
impl BuildHasher for Seeded {
    type Hasher = SeededHasher;
    fn build_hasher(&self) -> SeededHasher {
        SeededHasher(self.0, 0)
    }
}

pub type Map = HashMap<u8, u8, Seeded>;
pub type Set = HashSet<u8, Seeded>;

/// 8 inserts from empty: in the small configuration the 8th insert grows (capacity 7 -> old table
/// parked with 7 elements), carries R = 4, and leaves 3 elements in the old table.
pub fn split_map(seed: u64) -> Map {
    let mut m = Map::with_hasher(Seeded(seed));
    let mut i = 0u8;
    while i < 8 {
        m.insert(i, i.wrapping_add(100));
        i += 1;
    }
    m
}

/// a key that is still in the old table of a split map: iteration yields the main table first, the old table last
pub fn old_table_key(m: &Map) -> u8 {
    let mut last = 0u8;
    for (k, _) in m.iter() {
        last = *k;
    }
    last
}
/// a key that is in the main table of a split map (first yielded)
pub fn main_table_key(m: &Map) -> u8 {
    *m.iter().next().unwrap().0
}

#[cfg(kani)]
mod harnesses {
    use super::*;

    /// C01/C12: a write through get_mut on ANY present key (old or new table) is seen by get
    #[kani::proof]
    #[kani::unwind(10)]
    fn api_get_mut_split() {
        let mut m = split_map(0);
        let st = m.verif_state();
        kani::cover!(st.old.is_some(), "resize in flight");
        assert!(st.old.is_some());
        let k: u8 = kani::any();
        kani::assume(k < 8);
        let v: u8 = kani::any();
        match m.get_mut(&k) {
            Some(slot) => *slot = v,
            None => panic!("present key not found by get_mut"),
        }
        assert!(m.get(&k) == Some(&v));
        assert!(m.len() == 8);
    }

    /// C14: maps with equal contents compare equal whatever their hashers' internal state
    #[kani::proof]
    #[kani::unwind(6)]
    fn eq_hasher_state() {
        // hasher states are concrete and different; one key is symbolic over a small range
        let (s1, s2) = (0u64, 5u64);
        let mut a = Map::with_hasher(Seeded(s1));
        let mut b = Map::with_hasher(Seeded(s2));
        let k1: u8 = 1;
        let k2: u8 = if kani::any() { 2 } else { 9 };
        a.insert(k1, 1);
        a.insert(k2, 2);
        b.insert(k2, 2);
        b.insert(k1, 1);
        assert!(a == b);
        assert!(b == a);
        kani::cover!(s1 != s2, "different hasher state");
    }

    /// C01: removing ANY present key of a split map returns its value and only that key disappears
    #[kani::proof]
    #[kani::unwind(10)]
    fn api_remove_split() {
        let mut m = split_map(0);
        assert!(m.verif_state().old.is_some());
        let k: u8 = kani::any();
        kani::assume(k < 8);
        assert!(m.remove(&k) == Some(k.wrapping_add(100)));
        assert!(m.len() == 7);
        assert!(m.get(&k).is_none());
        let other: u8 = if k == 7 { 0 } else { k + 1 };
        assert!(m.get(&other) == Some(&other.wrapping_add(100)));
        kani::cover!(m.verif_state().old.is_some(), "still split after the removal");
    }

    /// C01/C02/C03: overwriting a key (wherever it lives) returns the old value, keeps len, and moves at most R
    #[kani::proof]
    #[kani::unwind(10)]
    fn api_insert_overwrite_split() {
        let mut m = split_map(0);
        let before = m.verif_state();
        let k: u8 = kani::any();
        kani::assume(k < 8);
        assert!(m.insert(k, 7) == Some(k.wrapping_add(100)));
        assert!(m.len() == 8);
        assert!(m.get(&k) == Some(&7));
        let after = m.verif_state();
        let lo0 = before.old.map_or(0, |o| o.0);
        let lo1 = after.old.map_or(0, |o| o.0);
        assert!(lo1 <= lo0 && lo0 - lo1 <= before.r);
        if let Some((len, _, expected)) = after.old {
            assert!(len == expected); // cached iterator agrees with the old table
        }
    }

    /// C12: the handle returned by Entry::insert on a key that is still in the old table designates the element:
    /// a write through it is seen by get (concrete)
    #[kani::proof]
    #[kani::unwind(10)]
    fn api_entry_insert_old_key() {
        let mut m = split_map(0);
        let k = old_table_key(&m);
        {
            let mut h = m.entry(k).insert(1);
            *h.get_mut() = 9;
        }
        assert!(m.get(&k) == Some(&9));
        assert!(m.len() == 8);
    }

    /// C12: Entry::insert on an absent key while a resize is pending (the insertion also carries): the handle
    /// designates the new element (concrete)
    #[kani::proof]
    #[kani::unwind(10)]
    fn api_entry_insert_absent_key() {
        let mut m = split_map(0);
        {
            let mut h = m.entry(8).insert(1);
            *h.get_mut() = 9;
        }
        assert!(m.get(&8) == Some(&9));
        assert!(m.len() == 9);
    }

    /// C01/C12/C14: a resize started by `reserve` moves nothing: every element is in the old table and the MAIN table is
    /// empty. Lookups, raw-entry lookups, get_mut, is_empty, the fold-based adaptors must still see the elements.
    #[kani::proof]
    #[kani::unwind(8)]
    fn main_empty_after_reserve() {
        let mut m = Map::with_hasher(Seeded(0));
        m.insert(0, 100);
        m.insert(1, 101);
        m.insert(2, 102);
        m.reserve(8);
        let st = m.verif_state();
        kani::cover!(st.old.is_some(), "resize in flight with an empty main table");
        assert!(st.old.is_some());
        let k: u8 = if kani::any() { 0 } else { 2 };
        assert!(!m.is_empty() && m.len() == 3);
        assert!(m.contains_key(&k));
        assert!(m.raw_entry().from_key(&k).is_some());
        assert!(m.iter().count() == 3);
        match m.get_mut(&k) {
            Some(v) => *v = 7,
            None => panic!("present key not found by get_mut while the main table is empty"),
        }
        match m.raw_entry_mut().from_key(&k) {
            griddle::hash_map::RawEntryMut::Occupied(o) => assert!(*o.get() == 7),
            griddle::hash_map::RawEntryMut::Vacant(_) => panic!("raw entry reports Vacant for a present key"),
        }
    }

    /// C12: a write through the references handed out by raw_entry_mut().from_key(k).or_insert(..) is seen by later lookups,
    /// whether the key sits in the old table (about to be carried) or in the main table
    #[kani::proof]
    #[kani::unwind(10)]
    fn raw_or_insert_write_through_split() {
        let mut m = split_map(0);
        let st = m.verif_state();
        kani::cover!(st.old.is_some(), "resize in flight");
        assert!(st.old.is_some());
        let k: u8 = if kani::any() { old_table_key(&m) } else { main_table_key(&m) };
        {
            let (_, v) = m.raw_entry_mut().from_key(&k).or_insert(k, 0);
            *v = 77;
        }
        assert!(m.get(&k) == Some(&77));
        assert!(m.len() == 8);
    }

    /// C08: iterating a split map yields each element once, with exact length at every step, and is fused
    #[kani::proof]
    #[kani::unwind(12)]
    fn iter_exact_split() {
        let mut m = split_map(0);
        let k: u8 = kani::any();
        kani::assume(k < 8);
        m.remove(&k); // symbolic removal first: the old table may have been partly emptied
        let mut it = m.iter();
        let mut seen: u16 = 0;
        let mut n = 0usize;
        while n < 7 {
            assert!(it.len() == 7 - n);
            match it.next() {
                Some((kk, vv)) => {
                    assert!(*vv == kk.wrapping_add(100) && *kk != k);
                    assert!(seen & (1 << *kk) == 0);
                    seen |= 1 << *kk;
                }
                None => panic!("iterator ended early"),
            }
            n += 1;
        }
        assert!(it.len() == 0);
        assert!(it.next().is_none());
        assert!(it.next().is_none());
    }

    /// C09: retain calls the predicate once per element and keeps exactly the elements it accepted
    #[kani::proof]
    #[kani::unwind(12)]
    fn retain_parity_split() {
        let mut m = split_map(0);
        let p: u8 = kani::any();
        kani::assume(p < 2);
        let mut calls = 0u8;
        m.retain(|k, v| {
            calls += 1;
            *v = 0;
            *k % 2 == p
        });
        assert!(calls == 8);
        assert!(m.len() == 4);
        let q: u8 = kani::any();
        kani::assume(q < 8);
        assert!(m.contains_key(&q) == (q % 2 == p));
        if q % 2 == p {
            assert!(m.get(&q) == Some(&0));
        }
        // the map stays usable: the next insert must not trip over a stale cursor
        m.insert(200, 1);
        assert!(m.len() == 5);
    }


    /// C11: clone_from into a destination with different hasher state and its own old table
    #[kani::proof]
    #[kani::unwind(12)]
    fn clone_from_hasher_state() {
        let src = split_map(0);
        let mut dst = split_map(5);
        dst.insert(77, 1);
        dst.clone_from(&src);
        assert!(dst.len() == 8);
        let q: u8 = kani::any();
        kani::assume(q < 8 || q == 77);
        assert!(dst.get(&q) == src.get(&q));
        assert!(src.len() == 8);
    }

    /// C11: a clone is equal and independent
    #[kani::proof]
    #[kani::unwind(12)]
    fn clone_independent_split() {
        let src = split_map(0);
        let mut c = src.clone();
        assert!(c.len() == 8);
        let q: u8 = kani::any();
        kani::assume(q < 8);
        assert!(c.get(&q) == src.get(&q));
        c.remove(&q);
        assert!(src.get(&q) == Some(&q.wrapping_add(100)));
        assert!(src.len() == 8 && c.len() == 7);
    }

    /// C14: one differing value makes == false, both ways (small maps; which key differs is symbolic)
    #[kani::proof]
    #[kani::unwind(6)]
    fn eq_differs_in_one_value() {
        let mut a = Map::with_hasher(Seeded(0));
        let mut b = Map::with_hasher(Seeded(0));
        a.insert(1, 1);
        a.insert(2, 2);
        b.insert(2, 2);
        b.insert(1, 1);
        assert!(a == b);
        let q: u8 = if kani::any() { 1 } else { 2 };
        *b.get_mut(&q).unwrap() = 7;
        assert!(a != b);
        assert!(b != a);
    }

    /// C13: intersection of sets of different sizes, both operand orders; difference
    #[kani::proof]
    #[kani::unwind(6)]
    fn set_algebra_small() {
        let mut a = Set::with_hasher(Seeded(0));
        let mut b = Set::with_hasher(Seeded(0));
        a.insert(1);
        a.insert(2);
        a.insert(9);
        b.insert(2);
        b.insert(3);
        assert!(a.intersection(&b).count() == 1);
        assert!(b.intersection(&a).count() == 1);
        assert!(a.difference(&b).count() == 2);
        assert!(b.difference(&a).count() == 1);
    }

    /// C13: union and symmetric difference with a strictly smaller left operand that has an element of its own, both orders
    #[kani::proof]
    #[kani::unwind(6)]
    fn set_union_symdiff_small() {
        let mut a = Set::with_hasher(Seeded(0));
        let mut b = Set::with_hasher(Seeded(0));
        a.insert(1);
        b.insert(2);
        b.insert(3);
        assert!(a.union(&b).count() == 3);
        assert!(b.union(&a).count() == 3);
        assert!(a.union(&b).any(|x| *x == 1));
        assert!(a.symmetric_difference(&b).count() == 3);
        b.insert(1);
        assert!(a.union(&b).count() == 3);
        assert!(a.symmetric_difference(&b).count() == 2);
        assert!(b.symmetric_difference(&a).count() == 2);
    }

    /// a key type whose equal instances are distinguishable: Eq/Hash look at `id` only
    #[derive(Clone, Copy, Debug)]
    pub struct Tagged { pub id: u8, pub tag: u8 }
    impl PartialEq for Tagged { fn eq(&self, o: &Self) -> bool { self.id == o.id } }
    impl Eq for Tagged {}
    impl core::hash::Hash for Tagged { fn hash<H: Hasher>(&self, h: &mut H) { h.write_u8(self.id) } }

    /// C12: OccupiedEntry::key / Entry::key report the STORED key, not the key used for the lookup
    #[kani::proof]
    #[kani::unwind(6)]
    fn entry_key_is_stored_key() {
        let mut m: HashMap<Tagged, u8, Seeded> = HashMap::with_hasher(Seeded(0));
        let t: u8 = kani::any();
        m.insert(Tagged { id: 7, tag: 1 }, 0);
        let e = m.entry(Tagged { id: 7, tag: t });
        assert!(e.key().tag == 1);
        if let griddle::hash_map::Entry::Occupied(o) = e {
            assert!(o.key().tag == 1);
            assert!(o.remove_entry().0.tag == 1);
        } else {
            panic!("present key reported vacant");
        }
    }

    /// C01: insert on a present key (in the old table) replaces the value and never the stored key
    #[kani::proof]
    #[kani::unwind(10)]
    fn insert_keeps_stored_key_split() {
        let mut m: HashMap<Tagged, u8, Seeded> = HashMap::with_hasher(Seeded(0));
        let mut i = 0u8;
        while i < 8 {
            m.insert(Tagged { id: i, tag: 1 }, i);
            i += 1;
        }
        assert!(m.verif_state().old.is_some());
        let k: u8 = kani::any();
        kani::assume(k < 8);
        assert!(m.insert(Tagged { id: k, tag: 2 }, 99) == Some(k));
        let (sk, sv) = m.get_key_value(&Tagged { id: k, tag: 3 }).unwrap();
        assert!(sk.tag == 1 && *sv == 99);
        assert!(m.len() == 8);
    }

    /// C01/C06/C12: entry(absent).insert(v).replace_entry_with(|_,_| None) removes the element and yields a vacant entry
    #[kani::proof]
    #[kani::unwind(5)]
    fn entry_insert_replace_none() {
        let mut m = Map::with_hasher(Seeded(0));
        let e = m.entry(2).insert(5);
        match e.replace_entry_with(|_, _| None) {
            griddle::hash_map::Entry::Vacant(v) => { assert!(*v.key() == 2); }
            griddle::hash_map::Entry::Occupied(_) => panic!("still occupied after the closure returned None"),
        }
        assert!(m.len() == 0 && m.get(&2).is_none());
    }

    /// C09: dropping a drain_filter early still removes every remaining matching element (values with drop glue)
    static mut GONE: u8 = 0;
    struct Glue(u8);
    impl Drop for Glue { fn drop(&mut self) { unsafe { GONE += 1; } } }
    #[kani::proof]
    #[kani::unwind(8)]
    fn drainf_early_drop_glue() {
        let mut m: HashMap<u8, Glue, Seeded> = HashMap::with_hasher(Seeded(0));
        let mut i = 0u8;
        while i < 5 {
            m.insert(i, Glue(i));
            i += 1;
        }
        let take: u8 = kani::any();
        kani::assume(take <= 1);
        {
            let mut d = m.drain_filter(|k, _| *k != 0);
            if take == 1 {
                assert!(d.next().is_some());
            }
        } // dropped early
        assert!(m.len() == 1);
        assert!(m.contains_key(&0));
        unsafe { assert!(GONE == 4); }
    }

    /// C14/C13: set equality is false for a proper subset, both ways
    #[kani::proof]
    #[kani::unwind(8)]
    fn set_eq_proper_subset() {
        let mut a = Set::with_hasher(Seeded(0));
        let mut b = Set::with_hasher(Seeded(0));
        let k: u8 = if kani::any() { 3 } else { 9 };
        a.insert(1);
        a.insert(2);
        b.insert(1);
        b.insert(2);
        b.insert(k);
        assert!(a != b);
        assert!(b != a);
        b.remove(&k);
        assert!(a == b && b == a);
    }

    /// C08/C01: collect() keeps one entry per key when the input repeats a key
    #[kani::proof]
    #[kani::unwind(8)]
    fn from_iter_duplicate_keys() {
        let k: u8 = if kani::any() { 1 } else { 2 };
        let v = [(1u8, 10u8), (2, 20), (k, 30)];
        let m: Map = v.iter().cloned().collect();
        assert!(m.len() == 2);
        assert!(m.iter().count() == 2);
        assert!(m.get(&k) == Some(&30));
    }

    /// C01: collect() is insert-by-insert: the last value given for a repeated key wins (concrete input)
    #[kani::proof]
    #[kani::unwind(6)]
    fn from_iter_last_value_wins() {
        let v = [(1u8, 10u8), (1, 30)];
        let m: Map = v.iter().cloned().collect();
        assert!(m.len() == 1);
        assert!(m.get(&1) == Some(&30));
    }

    /// C08/C01: extend() into an emptied map that kept its capacity keeps one entry per key
    #[kani::proof]
    #[kani::unwind(6)]
    fn extend_refill_duplicate_keys() {
        let mut n = Map::with_capacity_and_hasher(3, Seeded(0));
        n.insert(5, 5);
        n.clear();
        let v = [(1u8, 10u8), (1, 30)];
        n.extend(v.iter().cloned());
        assert!(n.len() == 1 && n.iter().count() == 1);
    }

    /// C13: inserting an equal element keeps the element that is already stored (only `replace` swaps it)
    #[kani::proof]
    #[kani::unwind(6)]
    fn set_insert_keeps_stored() {
        let mut s: HashSet<Tagged, Seeded> = HashSet::with_hasher(Seeded(0));
        assert!(s.insert(Tagged { id: 7, tag: 1 }));
        let t: u8 = kani::any();
        assert!(!s.insert(Tagged { id: 7, tag: t }));
        assert!(s.len() == 1);
        assert!(s.get(&Tagged { id: 7, tag: 0 }).unwrap().tag == 1);
        assert!(s.replace(Tagged { id: 7, tag: 2 }).unwrap().tag == 1);
        assert!(s.get(&Tagged { id: 7, tag: 0 }).unwrap().tag == 2);
    }

    /// C01: insert on a present key replaces the value and keeps the key that is stored (unsplit; the split case is
    /// insert_keeps_stored_key_split in the thorough tier)
    #[kani::proof]
    #[kani::unwind(6)]
    fn map_insert_keeps_stored_key() {
        let mut m: HashMap<Tagged, u8, Seeded> = HashMap::with_hasher(Seeded(0));
        assert!(m.insert(Tagged { id: 7, tag: 1 }, 10).is_none());
        let t: u8 = kani::any();
        assert!(m.insert(Tagged { id: 7, tag: t }, 11) == Some(10));
        assert!(m.len() == 1);
        let (k, v) = m.get_key_value(&Tagged { id: 7, tag: 0 }).unwrap();
        assert!(k.tag == 1 && *v == 11);
    }

    /// C08: into_iter of a split map yields every element exactly once and reports an exact length at every step
    #[kani::proof]
    #[kani::unwind(12)]
    fn into_iter_split_all() {
        let m = split_map(0);
        let mut it = m.into_iter();
        let mut seen: u16 = 0;
        let mut n = 0usize;
        while n < 8 {
            assert!(it.len() == 8 - n);
            match it.next() {
                Some((k, v)) => {
                    assert!(v == k.wrapping_add(100) && k < 8);
                    assert!(seen & (1 << k) == 0);
                    seen |= 1 << k;
                }
                None => panic!("into_iter ended early"),
            }
            n += 1;
        }
        assert!(it.len() == 0 && it.next().is_none());
    }

    /// C08/C05: drain of a split map yields every element once, leaves an empty unsplit map, and the map is usable afterwards
    #[kani::proof]
    #[kani::unwind(12)]
    fn drain_split_then_reuse() {
        let mut m = split_map(0);
        let mut seen: u16 = 0;
        let mut n = 0usize;
        {
            let mut d = m.drain();
            while n < 8 {
                assert!(d.len() == 8 - n);
                match d.next() {
                    Some((k, v)) => {
                        assert!(v == k.wrapping_add(100) && k < 8);
                        assert!(seen & (1 << k) == 0);
                        seen |= 1 << k;
                    }
                    None => panic!("drain ended early"),
                }
                n += 1;
            }
            assert!(d.next().is_none());
        }
        assert!(m.len() == 0 && m.iter().next().is_none());
        let st = m.verif_state();
        assert!(st.old.is_none());
        m.insert(3, 4);
        assert!(m.len() == 1 && m.iter().count() == 1 && m.get(&3) == Some(&4));
    }

    /// C08: a clone taken once the main-table part is exhausted continues independently with the old-table part
    #[kani::proof]
    #[kani::unwind(12)]
    fn iter_clone_after_main_exhausted() {
        let m = split_map(0);
        let main_len = m.verif_state().main_len;
        assert!(main_len < 8);
        let mut it = m.iter();
        let mut n = 0usize;
        while n < main_len {
            assert!(it.next().is_some());
            n += 1;
        }
        let mut c = it.clone();
        assert!(c.len() == 8 - main_len && it.len() == 8 - main_len);
        let mut cnt = 0usize;
        while c.next().is_some() {
            cnt += 1;
        }
        assert!(cnt == 8 - main_len);
        assert!(it.len() == 8 - main_len);
    }

    /// C01: Extend<(&K, &V)> inserts every pair, also from an iterator whose size_hint lower bound is 0
    #[kani::proof]
    #[kani::unwind(6)]
    fn extend_ref_filtered() {
        let mut src = Map::with_hasher(Seeded(0));
        src.insert(1, 10);
        src.insert(2, 20);
        let mut dst = Map::with_hasher(Seeded(0));
        dst.insert(9, 9);
        dst.extend(src.iter().filter(|(k, _)| **k != 0));
        assert!(dst.len() == 3 && dst.get(&1) == Some(&10) && dst.get(&2) == Some(&20));
    }

    /// C13: is_disjoint follows the definition also for aliased and empty operands
    #[kani::proof]
    #[kani::unwind(6)]
    fn set_is_disjoint_self() {
        let mut a = Set::with_hasher(Seeded(0));
        assert!(a.is_disjoint(&a)); // the empty set is disjoint from itself
        let b = Set::with_hasher(Seeded(0));
        assert!(a.is_disjoint(&b) && b.is_disjoint(&a));
        a.insert(1);
        assert!(!a.is_disjoint(&a));
        assert!(a.is_disjoint(&b));
        a.remove(&1);
        assert!(a.is_disjoint(&a));
    }

    /// C12/C01: OccupiedEntry::replace_entry stores the key the entry was created with and hands back the stored one
    #[kani::proof]
    #[kani::unwind(6)]
    fn entry_replace_entry_swaps_key() {
        let mut m: HashMap<Tagged, u8, Seeded> = HashMap::with_hasher(Seeded(0));
        m.insert(Tagged { id: 7, tag: 1 }, 10);
        let t: u8 = if kani::any() { 2 } else { 3 };
        match m.entry(Tagged { id: 7, tag: t }) {
            griddle::hash_map::Entry::Occupied(o) => {
                let (old_k, old_v) = o.replace_entry(11);
                assert!(old_k.tag == 1 && old_v == 10);
            }
            griddle::hash_map::Entry::Vacant(_) => panic!("present key reported vacant"),
        }
        let (k, v) = m.get_key_value(&Tagged { id: 7, tag: 0 }).unwrap();
        assert!(k.tag == t && *v == 11);
    }

    /// C06: every value is dropped exactly once (static ledger), across a move between tables and a removal
    static mut LIVE: [u8; 16] = [0; 16];
    struct Tracked(u8);
    impl Drop for Tracked {
        fn drop(&mut self) {
            unsafe {
                assert!(LIVE[self.0 as usize] == 1, "double drop");
                LIVE[self.0 as usize] = 0;
            }
        }
    }
    #[kani::proof]
    #[kani::unwind(12)]
    fn drop_ledger_split() {
        let mut m: HashMap<u8, Tracked, Seeded> = HashMap::with_hasher(Seeded(0));
        let mut i = 0u8;
        while i < 8 {
            unsafe { LIVE[i as usize] = 1; }
            m.insert(i, Tracked(i));
            i += 1;
        }
        let k: u8 = kani::any();
        kani::assume(k < 8);
        let got = m.remove(&k);
        assert!(got.is_some());
        drop(got);
        unsafe { assert!(LIVE[k as usize] == 0); }
        drop(m);
        let q: u8 = kani::any();
        kani::assume(q < 8);
        unsafe { assert!(LIVE[q as usize] == 0, "leak"); }
    }

    /// C13: subset/superset are reflexive on sets of equal cardinality
    #[kani::proof]
    #[kani::unwind(6)]
    fn set_subset_equal_cardinality() {
        let mut a = Set::with_hasher(Seeded(0));
        let mut b = Set::with_hasher(Seeded(0));
        let k1: u8 = 1;
        let k2: u8 = if kani::any() { 2 } else { 9 };
        a.insert(k1);
        a.insert(k2);
        b.insert(k2);
        b.insert(k1);
        assert!(a.is_subset(&b));
        assert!(a.is_superset(&b));
        assert!(a.is_subset(&a));
        kani::cover!(k1 != k2, "two elements");
    }
}
