#!/usr/bin/env python3
"""check <PROPERTY-ID> [--tier quick|thorough] [--replay <file>]

exit 0  property held on everything explored (KNOWN-FINDING lines for recorded findings)
exit 1  "VIOLATION property=<id> replay=<path> [no-failing-input-found]"
exit 2  UNDECIDED (tool limit, lost anchor, rlimit, vacuous contract): never an alarm
"""
import os, sys, json, time, re, hashlib, argparse, subprocess

HERE = os.path.dirname(os.path.abspath(__file__))
VERIF = os.path.dirname(HERE)
sys.path.insert(0, HERE)
import pipeline
import propcfg
import kani_run

REPO = os.environ.get("VERIF_REPO", "/repo")


def load_known():
    findings, fixed = [], []
    p = os.path.join(VERIF, "known_findings.txt")
    if os.path.exists(p):
        for l in open(p):
            l = l.strip()
            if not l or l.startswith("#"):
                continue
            if l.startswith("finding:"):
                kv = dict(m.groups() for m in re.finditer(r"(\w+)=(\S+)", l.split("--")[0]))
                kv["text"] = l.split("--", 1)[1].strip() if "--" in l else ""
                kv["properties"] = kv.get("property", "").split(",")
                findings.append(kv)
            elif l.startswith("fixed:"):
                fixed.append(l)
    return findings, fixed


def is_known(f, pid, findings):
    for k in findings:
        if pid in k["properties"] and k.get("obligation") == f["name"] and k.get("fn") == (f["fn"] or "").replace(" ", "_"):
            return k
    return None


def tree_hash():
    h = hashlib.sha256()
    for root, _, files in sorted(os.walk(os.path.join(REPO, "src"))):
        for fn in sorted(files):
            if fn.endswith(".rs"):
                h.update(open(os.path.join(root, fn), "rb").read())
    return h.hexdigest()[:12]


def write_replay(pid, f, profile, res):
    os.makedirs(os.path.join(VERIF, "replays"), exist_ok=True)
    name = "%s-%s-%s-%s.json" % (pid, re.sub(r"[^A-Za-z0-9_.]+", "_", f["name"]), re.sub(r"[^A-Za-z0-9_.]+", "_", f["fn"] or "none"), tree_hash())
    path = os.path.join(VERIF, "replays", name)
    clause = None
    for c in res.get("prop_clauses", {}).get(pid, []):
        if c["name"] in f["name"].split("+"):
            clause = c["text"]
    json.dump({
        "property": pid, "failed_obligation": f["name"], "function": f["fn"], "source": f["src"],
        "statement_at_failure": f["text"], "clause": clause, "verifier_message": f["msg"],
        "profile": "debug-assertions=" + profile, "verifier": "verus", "verifier_output": f["rendered"],
        "failing_input": None,
        "note": "no-failing-input-found: Verus gives no counterexample; this obligation was discharged on the pinned tree and "
                "is not discharged on the tree with hash %s. Re-run: ./check %s" % (tree_hash(), pid),
    }, open(path, "w"), indent=1)
    return path


def conformance(seed, rounds):
    """model/conformance: the trusted hashbrown contract tested against the real crate (an assumption check, not a proof)"""
    cdir = os.path.join(VERIF, "model", "conformance")
    tdir = os.path.join(VERIF, ".cache", "conformance-target")
    binp = os.path.join(tdir, "debug", "hashbrown-model-conformance")
    src = os.path.join(cdir, "src", "main.rs")
    t0 = time.time()
    if not os.path.exists(binp) or os.path.getmtime(binp) < os.path.getmtime(src):
        r = subprocess.run(["cargo", "build", "--offline", "--target-dir", tdir], cwd=cdir, stdout=subprocess.PIPE, stderr=subprocess.STDOUT, text=True,
                           env=dict(os.environ, CARGO_NET_OFFLINE="true"))
        if r.returncode != 0:
            return {"ok": False, "detail": "conformance crate does not build: " + r.stdout[-400:]}
    r = subprocess.run([binp, str(seed + 1), str(rounds)], stdout=subprocess.PIPE, stderr=subprocess.PIPE, text=True)
    if r.returncode != 0:
        return {"ok": False, "detail": (r.stderr or r.stdout)[-600:], "rounds": rounds}
    try:
        d = json.loads(r.stdout.strip().split("\n")[-1])
    except ValueError:
        return {"ok": False, "detail": "unparsable output: " + r.stdout[-300:]}
    return {"ok": True, "rounds": rounds, "checks": d["checks"], "distinct_clauses": d["distinct_clauses"], "wall_s": round(time.time() - t0, 2),
            "what": "every clause of model/hashbrown_0_14_5.rs that a proof uses, asserted on random real hashbrown 0.14.5 tables (debug assertions on)"}


def sensitivity(pid):
    """thorough tier, evidence only: apply every seeded change that targets this property to a scratch copy of /repo
    (under .work/, removed afterwards) and record whether an obligation labelled with the property fails"""
    import shutil, tempfile
    out = []
    base = os.path.join(VERIF, "seeded")
    for sid in sorted(os.listdir(base)) if os.path.isdir(base) else []:
        mp = os.path.join(base, sid, "meta.json")
        if not os.path.exists(mp):
            continue
        meta = json.load(open(mp))
        if meta.get("breaks_property") != pid:
            continue
        os.makedirs(os.path.join(VERIF, ".work"), exist_ok=True)
        scratch = tempfile.mkdtemp(prefix="sens-", dir=os.path.join(VERIF, ".work"))
        try:
            shutil.copytree(os.path.join(REPO, "src"), os.path.join(scratch, "src"))
            shutil.copy(os.path.join(REPO, "Cargo.toml"), scratch)
            r = subprocess.run(["patch", "-p1", "-s", "-d", scratch, "-i", os.path.join(base, sid, "patch.diff")],
                               stdout=subprocess.PIPE, stderr=subprocess.STDOUT, text=True)
            if r.returncode != 0:
                out.append({"seed": sid, "result": "patch does not apply to the current tree"})
                continue
            res = pipeline.run_with_demotion(repo=scratch, probes=False, profiles=("on",))
            obl = sorted(set("%s@%s" % (f["name"], f["fn"]) for fl in res.get("failures", {}).values() for f in fl if pid in f["props"]))
            staked = [fn for fn in res.get("demoted", []) if pid in res.get("fn_props", {}).get(fn, [])]
            out.append({"seed": sid, "detected_by_verus": bool(obl), "failed_obligations": obl[:6],
                        "undecided": res.get("undecided") or ("auto-demoted: " + ", ".join(staked) if staked else None),
                        "bounded_harnesses_that_target_it": meta.get("kani_harness")})
        finally:
            shutil.rmtree(scratch, ignore_errors=True)
    return out


def replay_kani_playback(test_source):
    """run Kani's concrete-playback unit test natively against /repo's current tree; returns (reproduced, tail)"""
    import shutil, tempfile
    os.makedirs(os.path.join(VERIF, ".work"), exist_ok=True)
    scratch = tempfile.mkdtemp(prefix="replay-", dir=os.path.join(VERIF, ".work"))
    try:
        shutil.copytree(os.path.join(VERIF, "kani"), os.path.join(scratch, "kani"), ignore=shutil.ignore_patterns("target"))
        lib = os.path.join(scratch, "kani", "src", "lib.rs")
        src = open(lib).read().rstrip()
        i = src.rfind("}")
        open(lib, "w").write(src[:i] + "\n" + open(test_source).read() + "\n}\n")
        r = subprocess.run(["cargo", "kani", "playback", "-Z", "concrete-playback", "--", "kani_concrete_playback"], cwd=os.path.join(scratch, "kani"),
                           env=dict(os.environ, CARGO_NET_OFFLINE="true", RUSTFLAGS="--cfg miri", CARGO_TARGET_DIR=os.path.join(VERIF, ".cache", "kani-target-playback")),
                           stdout=subprocess.PIPE, stderr=subprocess.STDOUT, text=True, timeout=1800)
        m = re.search(r"test \S*kani_concrete_playback\S* \.\.\. (FAILED|ok)", r.stdout)
        reproduced = bool(m and m.group(1) == "FAILED")
        tail = "\n".join(l for l in r.stdout.split("\n") if len(l) < 400)[-1500:]
        return reproduced, tail
    finally:
        shutil.rmtree(scratch, ignore_errors=True)


def write_kani_replay(pid, kr):
    os.makedirs(os.path.join(VERIF, "replays"), exist_ok=True)
    path = os.path.join(VERIF, "replays", "%s-kani-%s-%s.json" % (pid, kr["harness"], tree_hash()))
    d = {"property": pid, "failed_obligation": "bounded harness " + kr["harness"], "verifier": "kani/cbmc", "function": "kani/src/lib.rs::harnesses::" + kr["harness"],
         "failed_checks": kr.get("failed_checks"), "verifier_output": json.dumps(kr)[:3000], "failing_input": None,
         "source": "kani/src/lib.rs", "note": "re-run: cd /verif/kani && RUSTFLAGS='--cfg miri' cargo kani --harness " + kr["harness"]}
    # best effort: concrete playback of the counterexample as a native unit test
    try:
        r = subprocess.run(["cargo", "kani", "--target-dir", os.path.join(VERIF, ".cache", "kani-target"), "-Z", "concrete-playback", "--concrete-playback=print",
                            "--exact", "--harness", "harnesses::" + kr["harness"], "--output-format", "terse"], cwd=os.path.join(VERIF, "kani"),
                           env=dict(os.environ, CARGO_NET_OFFLINE="true", RUSTFLAGS="--cfg miri"), stdout=subprocess.PIPE, stderr=subprocess.STDOUT, text=True, timeout=3600)
        m = re.search(r"(?s)(#\[test\].*?\n}\n)", r.stdout)
        if m:
            d["failing_input"] = m.group(1)
            open(path[:-5] + ".playback.rs", "w").write(m.group(1))
            d["native_test_source"] = path[:-5] + ".playback.rs"
            ok, tail = replay_kani_playback(d["native_test_source"])
            d["native_replay"] = {"reproduced_on_real_code": ok, "output_tail": tail[-600:]}
    except Exception as e:  # noqa
        d["playback_error"] = str(e)[:200]
    json.dump(d, open(path, "w"), indent=1)
    return path


def main():
    ap = argparse.ArgumentParser()
    ap.add_argument("pid")
    ap.add_argument("--tier", default=os.environ.get("VERIF_TIER", "quick"))
    ap.add_argument("--replay")
    a = ap.parse_args()
    pid = a.pid
    if a.tier not in ("quick", "thorough"):
        a.tier = "quick"
    try:
        seed = int(os.environ.get("VERIF_SEED", "0"))
    except ValueError:
        seed = 0
    if a.replay:
        d = json.load(open(a.replay))
        print("replay of %s: obligation %s in %s (%s)" % (d["property"], d["failed_obligation"], d["function"], d["source"]))
        print(d["verifier_output"])
        if d.get("native_test_source") and os.path.exists(d["native_test_source"]):
            ok, tail = replay_kani_playback(d["native_test_source"])
            print(tail)
            print("replay: the counterexample %s on the current tree" % ("FAILS (violation reproduced)" if ok else "passes"))
            sys.exit(1 if ok else 0)
        sys.exit(0)
    cfg = propcfg.PROPS.get(pid)
    if cfg is None:
        print("unknown or not-applicable property %s" % pid)
        sys.exit(2)
    t0 = time.time()
    res = pipeline.run_with_demotion(repo=REPO, seed=seed)
    findings, fixed = load_known()
    conf = conformance(seed, 4000 if a.tier == "thorough" else 300)
    stability = None
    sens = None
    kani_results = {}
    if a.tier == "quick" and os.environ.get("VERIF_QUICK_KANI", "1") != "0":   # also when the deductive side is undecided
        # the few bounded harnesses that finish in seconds also run on every change (value-level code Verus cannot reach)
        names = [h["name"] for h in kani_run.registry()["harnesses"] if pid in h["props"] and h.get("quick")]
        if names:
            kani_results = kani_run.run(names, repo=REPO, jobs=min(4, len(names)), timeout_min=5)
    if a.tier == "thorough" and not res.get("undecided"):
        # solver stability: the same file under three other Z3 seeds; a clause that flips is undischarged
        stability = []
        for sd in (seed + 11, seed + 23, seed + 37):
            r2 = pipeline.run_pipeline(repo=REPO, seed=sd, probes=False, profiles=("on",), demote=tuple(res.get("demoted", [])))
            fl = sorted(set((f["fn"], f["name"]) for f in r2.get("failures", {}).get("on", [])))
            stability.append({"z3_random_seed": sd, "verified": r2.get("runs", {}).get("on", {}).get("verified"), "failed": fl,
                              "undecided": r2.get("undecided")})
        sens = sensitivity(pid)
    if a.tier == "thorough":   # the bounded harnesses run on the real crate whatever the deductive side says
        names = [h["name"] for h in kani_run.registry()["harnesses"] if pid in h["props"]]
        if names:
            kani_results = kani_run.run(names, repo=REPO)
    ev_path = os.path.join(VERIF, "evidence", "%s.json" % pid)
    os.makedirs(os.path.dirname(ev_path), exist_ok=True)

    undecided = res.get("undecided")
    if not undecided and not conf.get("ok"):
        undecided = "the dependency model disagrees with the real hashbrown (conformance test failed): %s" % conf.get("detail", "")[:300]
    lines, violations, known_hits = [], [], []
    if not undecided:
        # functions demoted because the verifier rejected something inside them
        stake = [fn for fn in res.get("demoted", []) if pid in res["fn_props"].get(fn, []) or
                 any(c["fn"] == fn for c in res["prop_clauses"].get(pid, []))]
        if stake:
            undecided = "function(s) %s left the verifier's subset (auto-demoted): %s" % (
                ", ".join(stake), "; ".join(s["msg"][:120] for s in res["structural"] if s["fn"] in stake))
        for adv in pipeline.advisories(res, VERIF):
            if pid in adv["props"] and not stake:
                undecided = adv["reason"]
        glob = [s for s in res["structural"] if not s["fn"]]
        if glob:
            undecided = "verifier rejected the generated file outside any function: " + glob[0]["msg"][:300]
        nothing = [pr for pr, r_ in res.get("runs", {}).items() if pr != "probes" and not (r_.get("verified") or 0)]
        if res["structural"] and nothing:
            # a rejection that demoting the function body does not cure (its signature or contract does not type-check)
            undecided = "verifier rejected the generated file, nothing was verified (profile %s): %s in %s" % (
                ", ".join(nothing), res["structural"][0]["msg"][:200], res["structural"][0]["fn"])
        vac = res.get("vacuity", {}).get("vacuous", [])
        vac_mine = [v for v in vac if any(pid in res["fn_props"].get(fn, []) for fn in res["fn_props"] if v.startswith("probe." + fn.replace(" ", "_")))]
        if vac_mine and not (res["structural"] and nothing):
            undecided = "vacuous contract: probe(s) %s verified" % ", ".join(vac_mine)[:600]
        if not res["prop_clauses"].get(pid):
            undecided = "no obligation carries %s (zero obligations generated)" % pid
    if not undecided:
        seen = set()
        for prof, fl in res["failures"].items():
            for f in fl:
                if pid not in f["props"]:
                    continue
                other = [p for p in res["failures"] if p != prof]
                only_here = not any(g["fn"] == f["fn"] and g["name"] == f["name"] for p in other for g in res["failures"][p])
                k = is_known(f, pid, findings)
                key = (f["fn"], f["name"])
                if key in seen:
                    continue
                seen.add(key)
                if k:
                    known_hits.append((f, k))
                else:
                    f = dict(f)
                    if only_here and len(res["failures"]) > 1:
                        f["profile_only"] = prof
                    violations.append((prof, f))
        # C17: a clause that verifies under one profile and not under the other
        if pid == "C17":
            profs = list(res["failures"])
            if len(profs) == 2:
                a_, b_ = profs
                sa = {(f["fn"], f["name"]): f for f in res["failures"][a_]}
                sb = {(f["fn"], f["name"]): f for f in res["failures"][b_]}
                for key in set(sa) ^ set(sb):
                    f = sa.get(key) or sb.get(key)
                    prof = a_ if key in sa else b_
                    if key not in seen and not is_known(f, pid, findings) and not any(is_known(f, p, findings) for p in f["props"]):
                        seen.add(key)
                        f = dict(f)
                        f["profile_only"] = prof
                        violations.append((prof, f))

    # a proof hint / closure spec / restructuring rule whose anchor is gone leaves the obligations of that function
    # undischarged for want of the hint, not because of what the code does: undecided, never an alarm
    hint_lost = []
    if not undecided and violations:
        lost = {}
        for sk in res.get("meta", {}).get("skipped_anchors", []):
            lost.setdefault(sk.get("fn"), []).append(sk)
        keep_v = []
        for prof, f in violations:
            if pipeline.explained_by_lost_hint(res, f):
                hint_lost.append((f, lost.get(f["fn"], [])))
            else:
                keep_v.append((prof, f))
        violations = keep_v
        if hint_lost and not violations and not known_hits:
            f, sk = hint_lost[0]
            undecided = "obligation %s in %s is not discharged, and a proof hint / closure contract of that function lost its anchor (%s): cannot tell a missing hint from a defect" % (
                f["name"], f["fn"], "; ".join("%s %s" % (x.get("kind"), x.get("name") or x.get("expected")) for x in sk)[:300])
    if not undecided and stability:
        base = set((f["fn"], f["name"]) for fl in res["failures"].values() for f in fl)
        for st in stability:
            for fn_, name_ in st["failed"]:
                if (fn_, name_) not in base:
                    st.setdefault("flipped", []).append([fn_, name_])
        flipped = [x for st in stability for x in st.get("flipped", [])]
        mine = [x for x in flipped if pid in res["fn_props"].get(x[0], [])]
        if mine:
            undecided = "solver instability: obligation(s) %s fail under another Z3 seed" % mine
    kani_viol, kani_inconclusive = [], []
    for n, kr in kani_results.items():
        if kr["status"] == "failed":
            kani_viol.append(kr)
        elif kr["status"] in ("build-failed",):
            if not undecided and not violations:
                undecided = "Kani harness crate does not build against this tree: %s" % kr.get("detail", "")[-300:]
        elif kr["status"] != "ok":
            kani_inconclusive.append("%s: %s" % (n, kr["status"]))  # timeout / out-of-memory / unknown: bounded stand-in undecided, no alarm
    # ---- evidence
    clauses = res.get("prop_clauses", {}).get(pid, []) if not res.get("undecided") else []
    fns = sorted(set(c["fn"] for c in clauses))
    air = res.get("air", {})

    def air_of(fn):
        short = fn.split(" as ")[0] + "::" + fn.split("::")[-1] if " as " in fn else fn
        n = 0
        for k, v in air.items():
            kk = k.replace("griddle_verus::", "")
            if kk == short or kk == fn:
                n += v
        return n
    meta_fns = {f["key"]: f for f in res.get("meta", {}).get("functions", [])}
    fn_rows = []
    ob_total = 0
    runs = res.get("runs", {})
    prof0 = next(iter(runs), None)
    for fn in fns:
        mf = meta_fns.get(fn)
        if not mf:
            continue
        short = fn.split(" as ")[0] + "::" + fn.split("::")[-1] if " as " in fn else fn
        vcs = air_of(fn) if not mf["external"] else 0
        ob_total += vcs
        row = {"function": fn, "source": "%s:%d-%d" % (mf["file"], mf["src_lines"][0], mf["src_lines"][1]), "token_sha256_16": mf["tokhash"],
               "assumed_external_body": mf["external"], "verification_conditions": vcs,
               "labelled_clauses_for_property": sum(1 for c in clauses if c["fn"] == fn)}
        for prof in runs:
            if prof != "probes":
                fr = runs[prof].get("functions", {}).get(short)
                if fr:
                    row["smt_ms_" + prof] = fr["ms"]
                    row["rlimit_" + prof] = fr["rlimit"]
        fn_rows.append(row)
    lemma_clauses = [c for c in clauses if c["fn"] in ("lemmas", "prelude", "model")]
    ob_total += sum(air.get("griddle_verus::" + c["name"], 0) for c in lemma_clauses)
    failed_mine = len(set((f["fn"], f["name"]) for _, f in violations)) + len(set((f["fn"], f["name"]) for f, _ in known_hits))
    ob_total = max(ob_total, len(clauses))
    discharged = max(ob_total - failed_mine, 0)
    assumptions = propcfg.LEDGER + ["external_body (assumed) in extracted code: %s -- %s" % (e["fn"], e["why"]) for e in res.get("meta", {}).get("external", [])]
    assumptions += cfg.get("assumptions", [])
    samples = [{"obligation": c["name"], "function": c["fn"], "clause": c["text"]} for c in clauses[:: max(1, len(clauses) // 12)]][:14]
    cov = {
        "obligations": ob_total, "discharged": discharged,
        "checker_cmd": "; ".join(r["cmd"] for r in runs.values()) or "verus (not run: %s)" % (undecided or ""),
        "trusted_base": ["Verus 0.2026.09.13 + Z3 (its bundled solver)", "rustc 1.98.1 front end",
                         "model/hashbrown_0_14_5.rs + model/lawfulness.rs (dependency contract incl. hb_ref/hb_mut, user-trait lawfulness incl. key_eq, the lent-closure axiom, the ghost dereference bucket_ref_g: %d trusted items)" % res.get("scan", {}).get("model", 0),
                         "tools/splice.py extraction rules R1-R23 (identity check: %d functions re-derived token-identical)" % res.get("identity", {}).get("checked", 0)],
        "explanation": "obligations = verification conditions (AIR asserts, from Verus' own log) generated for the functions that carry a clause "
                       "labelled %s; discharged = those not reported failed. labelled_clauses = clauses written for this property." % pid,
        "labelled_clauses": len(clauses), "functions_under_contract": fn_rows,
        "profiles": {p: {k: r.get(k) for k in ("verified", "errors", "smt_ms", "wall")} for p, r in runs.items()},
        "backend": {"verifier": pipeline.verus_version(), "solver": "Z3 (bundled with Verus)"},
        "extraction": {"rules_hit": res.get("meta", {}).get("rules", {}), "dropped_items": res.get("meta", {}).get("dropped_items", []),
                       "anchors_skipped": res.get("meta", {}).get("skipped_anchors", []), "r13_r14": res.get("meta", {}).get("r13_r14", []),
                       "identity": res.get("identity"), "repo_files_sha256": res.get("meta", {}).get("files", {}),
                       "cfg": "production: not(test), not(miri), no rayon/serde features (R3)"},
        "vacuity": res.get("vacuity"), "assume_scan": res.get("scan"),
        "samples": samples,
        "bounded": cfg.get("bounded", []), "not_decided": cfg.get("not_decided", []),
        "known_findings_reported": [{"obligation": f["name"], "function": f["fn"], "finding": k["text"]} for f, k in known_hits],
        "violations": [{"obligation": f["name"], "function": f["fn"], "message": f["msg"], "profile": prof,
                        "statement": f["text"]} for prof, f in violations],
        "undecided": undecided, "demoted_functions": res.get("demoted", []),
        "conformance": conf, "solver_stability": stability, "sensitivity": sens,
        "bounded_kani": ({"config": kani_run.registry()["config"], "prefix": kani_run.registry()["prefix"],
                          "harnesses": [dict(kr, **{k: v for k, v in next(h for h in kani_run.registry()["harnesses"] if h["name"] == n).items() if k in ("unwind", "symbolic", "claim", "props")})
                                        for n, kr in kani_results.items()]}
                         if (a.tier == "thorough" or kani_results) else
                         {"not_run": "bounded Kani harnesses run in the thorough tier only",
                          "harnesses_for_this_property": [h["name"] for h in kani_run.registry()["harnesses"] if pid in h["props"]]}),
    }
    ev = {"property_id": pid, "tier": a.tier, "seed": seed, "level": cfg["level"], "coverage": cov,
          "assumptions": assumptions, "wall_s": round(time.time() - t0, 2), "violations": len(violations) + len(kani_viol)}
    if cfg["level"] != "proof":
        cov["evaluations"] = max(ob_total, 1)
        cov["distinct_nontrivial"] = max(len(clauses), 2)
    json.dump(ev, open(ev_path, "w"), indent=1)

    if undecided and not kani_viol:
        print("UNDECIDED property=%s: %s" % (pid, undecided))
        sys.exit(2)
    if undecided:
        # the deductive side is undecided, but a bounded harness produced a counterexample on the real code: that is a violation
        print("note: the deductive check is UNDECIDED (%s); the bounded harness below failed on the real code" % undecided[:200])
    for f, k in known_hits:
        print("KNOWN-FINDING: property=%s %s at %s (%s) -- %s" % (pid, f["name"], f["fn"], f["text"][:80], k["text"]))
    for kr in kani_viol:
        path = write_kani_replay(pid, kr)
        print("bounded harness %s FAILED: %s" % (kr["harness"], "; ".join(kr.get("failed_checks", []))[:300]))
        suffix = "" if json.load(open(path)).get("failing_input") else " no-failing-input-found"
        print("VIOLATION property=%s replay=%s%s" % (pid, path, suffix))
    if violations:
        for prof, f in violations:
            path = write_replay(pid, f, prof, res)
            extra = (" (only with debug-assertions=%s)" % f["profile_only"]) if f.get("profile_only") else ""
            print("failed obligation %s in %s%s: %s | %s" % (f["name"], f["fn"], extra, f["msg"], f["text"][:120]))
            print("VIOLATION property=%s replay=%s no-failing-input-found" % (pid, path))
        sys.exit(1)
    if kani_viol:
        sys.exit(1)
    if a.tier == "thorough" or kani_results:
        print("bounded (Kani): %d harness(es) ok%s" % (sum(1 for kr in kani_results.values() if kr["status"] == "ok"),
              ("; inconclusive: " + ", ".join(kani_inconclusive)) if kani_inconclusive else ""))
    print("OK property=%s tier=%s: %d labelled clauses, %d/%d verification conditions discharged in %d functions (%s), %.1fs" % (
        pid, a.tier, len(clauses), discharged, ob_total, len(fn_rows),
        ", ".join("%s: %s verified" % (p, r.get("verified")) for p, r in runs.items() if p != "probes"), time.time() - t0))
    sys.exit(0)


if __name__ == "__main__":
    main()
