"""Per-property configuration of the check driver (what is proved, what is bounded, what is not decided)."""

LEDGER = [
    "1. model/hashbrown_0_14_5.rs: contracts of hashbrown::raw 0.14.5 written from its source (safety comments and debug assertions as preconditions); trusted, tested by model/conformance against the real crate",
    "2. assume_specification for core::mem::replace, Option::map_or, Option::or_else; vstd's specs for Option/usize/ranges",
    "3. user callbacks (hasher, eq, f) are safe, total, deterministic; panics are outside the logic except via the call-out assertions (C07)",
    "4. items under #[verifier::external_body] in the extracted code are assumed with the contract text shown (listed below)",
    "5. bucket dereferences (as_ref/as_mut/as_ptr) are opaque: no claim about values read or written through them",
    "6. usize is 64 bits; arithmetic overflow is an error in both profiles",
    "7. with_capacity/reserve may panic or abort (capacity overflow, OOM): partial correctness",
    "8. Drop, deallocation, mem::forget and unwinding are not modelled",
    "9. extraction rules R1-R20 preserve meaning (identity check re-derives every function token-for-token on each run); R16 materialises libcore's provided Iterator::for_each as its defining loop, R17 routes size_hint of a caller iterator through an identity wrapper whose result is unconstrained, R18 beta-reduces closure literals passed to Option::map/or_else in tail position, R19 turns a pattern parameter of a closure into a let, R20 materialises Iterator::all over a closure literal as its defining short-circuit loop",
    "10. Verus, Z3, rustc 1.98.1 are trusted",
    "11. production cfg only: cfg(test)/miri/rayon/serde items are not verified",
]


SETUP_CMD = "sh tools/setup.sh"
HOOKS = {"guard": "verif-hooks (cargo feature of griddle, off by default)",
         "enable": "the Kani harness crate /verif/kani depends on griddle with features = [\"verif-hooks\"] (HashMap/HashSet::verif_state()); the Verus checks read source and need no hook",
         "baseline_off_cmd": "cd /repo && cargo test --workspace --no-fail-fast --offline", "source_commits": ["9602676"], "add_only": True}
NOTES = ("All checks share one pipeline: extract real functions from /repo's working tree, splice contracts, Verus twice (debug-assertions on/off) "
         "plus a vacuity-probe run. exit 2 = UNDECIDED (tool limit / lost anchor), never an alarm. Five defects were repaired with fix: commits "
         "(e250819, d078205, c07d4e4, 8aace8e, 3cd8902), all recorded as fixed: in known_findings.txt; no open finding.")

V = "Verus contracts on the real code (extracted mechanically each run), all inputs / sizes / iterations, both debug-assertion profiles"

PROPS = {
 "C01": {"level": "proof", "technique": "Verus function contracts over an abstract two-table state (multiset content, per-table maps) on the real raw layer",
         "claim": "Unbounded proof, per call and hence by induction over histories, that every raw-layer operation (find/get/insert/remove/erase/clear/drain/len/reserve/shrink/grow/carry) has the sequential-map effect on the multiset of stored elements whichever table an element lives in (a lookup that misses consulted the main table AND the old table), that every insertion path stores the element under the hash the map's own builder computes for its key (invariant hashed), that the map/set/entry/raw-entry wrappers preserve all of it, and that no assert!/unreachable!/expect in that code can fire. " + V,
         "note": "trusted: the hashbrown contract model; old-table lookup completeness (FnMut reborrow) and values behind bucket pointers are not decided here",
         "not_decided": ["old-table lookup completeness is stated with an existentially quantified closure (`find` passes `&mut eq` to the first lookup; Verus cannot relate an FnMut to its later value)", "values written through dereferenced buckets (which value wins for a repeated key, key identity): bounded Kani harnesses only", "the two raw-entry `search` functions and OccupiedEntry::replace_entry_with (assumed contracts)"]},
 "C02": {"level": "proof", "technique": "Verus postconditions: carry moves exactly min(R, remaining), R == 8, growth relocates nothing, insert recursion decreases",
         "claim": "Unbounded proof that a key-adding call relocates at most R = 8 elements (carry.moves_exact, quota_is_eight), that growth parks the old table unchanged (no rehash), that insert grows at most once (decreases), that reserve/try_reserve on a map with no resize pending relocate nothing (either in place, or the old table is parked unchanged), that lookups/removals touch only the addressed bucket (frame clauses), that HashMap::insert carries on an overwrite only when the overwritten element is in the old table, and that the in-place reserve path never calls the hasher (closure `requires false`). " + V,
         "note": "exact hash/allocation counts are not expressible without cost tokens; derived from the relocation bound plus the structure of the call graph (assumption)",
         "not_decided": ["exact number of hash computations / allocations (structural argument only)"]},
 "C03": {"level": "proof", "technique": "Verus postconditions (exact progress, old table freed at zero) + induction lemma over the step relation",
         "claim": "Unbounded proof that every key-adding call moves exactly min(R, remaining) leftovers, that the old table is dropped when it reaches zero through carry/remove, that growth requires no leftovers (never three tables), plus the lemma that ceil(L/R) steps finish the resize. " + V,
         "note": "deallocation = the OldTable value is dropped (Rust ownership, trusted)"},
 "C04": {"level": "proof", "technique": "Verus data-structure invariant (headroom and progress) preserved by every raw operation + arithmetic lemma",
         "claim": "Unbounded proof that growth_left >= leftovers + ceil(leftovers/R) and growth_left >= 1 while a resize is pending are re-established by every mutating raw operation (insert, carry, grow, reserve, shrink_to, erase, remove, replace_bucket_with, clear, drain), so insert's assert!(leftovers.is_none()) cannot fire and capacity >= len. " + V,
         "note": "trusted: hashbrown model (growth_left bookkeeping of insert_no_grow/erase/remove/shrink_to)"},
 "C05": {"level": "proof", "technique": "Verus: every unsafe hashbrown call meets the dependency's precondition; invariant sync (cached iterator == occupied set of the old table)",
         "claim": "Unbounded proof for the raw layer that each unsafe dependency call satisfies the modelled safety precondition (bucket full in that table, room for insert_no_grow, iterator covers the table, reflect_remove before removal) and that the cached iterator agrees exactly with the old table after every operation. " + V,
         "note": "pointer dereferences in map.rs/set.rs are outside Verus (opaque); the zero-sized-element defect found through reflect_remove's precondition is repaired (8aace8e)",
         "not_decided": ["validity in time of references obtained by dereferencing buckets"]},
 "C06": {"level": "proof", "technique": "Verus multiset conservation of stored elements by every raw operation (linear values: moved, never copied)",
         "claim": "Unbounded proof that each raw operation conserves the multiset of stored elements up to exactly the element inserted or handed back (content clauses), which is 'returned or kept, never both'. Indirect: Drop itself is not modelled. " + V,
         "note": "Drop, mem::forget and deallocation are trusted to Rust ownership",
         "not_decided": ["Drop execution, leak freedom of allocations"]},
 "C07": {"level": "proof", "technique": "Verus assertions that the representation invariant holds at every call-out to user code in the raw layer",
         "claim": "Unbounded proof that at each call of user code inside the verified functions -- the hasher in carry/carry_all, the closure hashbrown runs in replace_bucket_with, Clone/Hash inside clone_from, and the predicates of retain and drain_filter -- the structure already satisfies its invariants with only the in-flight element missing (and, for clone_from, the destination's old table already dropped), so unwinding from that point leaves a consistent map. " + V,
         "note": "unwinding itself is not modelled (invariant-at-call-out argument); Clone panics inside hashbrown's clone and double drops during unwinding are not decided",
         "not_decided": ["Clone panics inside hashbrown", "double drops during unwinding", "carry refactored to own the old table locally (seed C07-6) ends UNDECIDED"]},
 "C08": {"level": "proof", "technique": "Verus contracts on iter/drain/into_iter_from and on next/size_hint of RawIter (real body, rule R18)/RawIntoIter/RawDrain and the map/set wrappers",
         "claim": "Unbounded proof that iter() covers exactly main + old table (old part = clone of the cached iterator), that drain detaches the old table at once, that into_iter/RawIntoIter/RawDrain yield each remaining element once and are fused, that every size_hint is the exact sum, and that the map- and set-level wrappers (Iter, IterMut, Keys, Values, ValuesMut, IntoIter, Drain and the set versions) are created covering the whole map and count down by exactly one per yielded element. " + V,
         "note": "RawIter::next is verified on its real body (rule R18 beta-reduces the closure literals of its map/or_else chain); which VALUE a yielded bucket holds is behind a pointer dereference",
         "not_decided": ["the values handed out by the map/set iterator wrappers (pointer dereference)"]},
 "C09": {"level": "proof", "technique": "Verus contracts on erase/remove as used by retain/drain_filter (structure); values behind pointers undecided",
         "claim": "Unbounded proof of the structural half on the real bodies of retain and DrainFilterInner::next: every invariant kept, only yielded and still-valid buckets erased/removed, result a sub-multiset (retain) / exactly the yielded element removed (drain_filter), the cursor only moves forward (each element visited once), stays valid even after the old table is freed, and the loops terminate. " + V,
         "note": "which elements are kept depends on values read through bucket pointers: not decided by Verus",
         "not_decided": ["partition by the predicate (values behind as_mut())"]},
 "C10": {"level": "proof", "technique": "Verus contracts of with_capacity/reserve/try_reserve/shrink_to incl. overflow-freedom of every usize operation",
         "claim": "Unbounded proof, for all n and m in usize, that reserve/try_reserve(Ok) leave growth_left >= leftovers + n, that Err leaves the table unchanged, that try_reserve (and every function whose documentation announces no capacity-overflow panic) can never reach hashbrown's panicking allocation entry points (uninterpreted permission required by with_capacity / a growing reserve), that shrink_to never enlarges or loses elements, keeps capacity >= len and >= min(m, ...) when it resizes, and that no size computation can overflow in either profile, at raw, map and set level. " + V,
         "note": "allocation failure/capacity overflow behaviour of hashbrown is modelled (with_capacity returns only for c <= isize::MAX)"},
 "C11": {"level": "proof", "technique": "Verus contracts on clone_with_hasher / clone_from_with_hasher (structure: unsplit result, size)",
         "claim": "Unbounded proof on the real bodies of Clone for HashMap (clone, clone_from) and of the raw functions beneath them (incl. and_carry_with_hasher): the destination's own old table is dropped first, the result is unsplit, well-formed, has the source's element count, and is hashed under the hash builder the map ends up with (a clone of the source's). " + V,
         "note": "and_carry_with_hasher, Clone for HashMap and Clone for HashSet are verified on their real bodies (R14/R15); element-wise equality and independence are not decided by Verus (bounded Kani harnesses)",
         "not_decided": ["element-wise equality of the clone", "independence of the two maps"]},
 "C12": {"level": "proof", "technique": "Verus: insert returns a valid main-table bucket holding the value in the final state; carry leaves main buckets in place; dispatch on in_main",
         "claim": "Unbounded proof that the bucket returned by insert/insert_no_grow designates the new element after growth and after carry (carry.main_stable), that find tags buckets with the right table, that remove/erase/replace_bucket_with act on the bucket's own table, and that every method of Entry/OccupiedEntry/VacantEntry/RawEntryMut/RawOccupiedEntryMut/RawVacantEntryMut requires a handle that designates a live element and returns one that still does (no operation between creation and use of a handle may move elements). " + V,
         "note": "accessors that dereference buckets are opaque to Verus",
         "not_decided": ["values read/written through handles"]},
 "C17": {"level": "proof", "technique": "the same contracts verified under -C debug-assertions=on and =off; overflow and debug-only assertions are obligations",
         "claim": "Unbounded proof that no debug_assert!/cfg!(debug_assertions) arm can fire, that both arms meet one contract, and that no usize computation can overflow, so the two profiles cannot diverge in the raw layer. " + V,
         "note": "hashbrown's own debug assertions are modelled as preconditions; the reflect_remove ordering assertion is not visible to Verus"},
 "C13": {"level": "proof", "technique": "Verus contracts on the HashSet element operations (one-line delegations) over the map/raw-layer contracts they rest on",
         "claim": "Unbounded proof that HashSet::{insert, replace, remove, take, clear, len, is_empty, reserve, try_reserve, shrink_to*, get_or_insert, iter, drain, into_iter} have the set effect on the underlying table (cardinality changes by exactly the reported result, contents conserved, invariants kept), resting on the C01 clauses of the raw and map functions they delegate to (those clauses also carry the label C13), that intersection/difference iterate and probe the right operands and terminate, and that is_disjoint/is_subset/is_superset/== (real bodies, Iterator::all materialised by rule R20) are memory-safe in every resize phase, terminate, and answer true only when the cardinalities allow it. " + V,
         "note": "is_disjoint/is_subset/is_superset/== are verified on their real bodies (R20) for memory safety, termination and what cardinality decides; their element-wise meaning, union/symmetric_difference (chain) and the operator forms are not decided by Verus (bounded Kani harnesses)",
         "not_decided": ["element-wise meaning of is_subset / is_superset / is_disjoint / ==", "union / symmetric_difference and the operator forms (iterator adapters)", "membership results (values behind bucket pointers)"]},
 "C14": {"level": "proof", "technique": "Verus: every read-only observer of the raw layer (len, find/get, iter, size_hint) is specified as a function of the abstract contents only",
         "claim": "Unbounded proof that len() is the sum over both tables, that a lookup consults the main table and then the old table, that iter() covers exactly the occupied buckets of both tables and that the cached iterator agrees with the old table after every operation -- i.e. what the read-only API reports does not depend on which table holds an element or on how the state was reached; PartialEq::eq of map and set (real bodies, rule R20) walks exactly that iterator, terminates, and is false whenever the lengths differ. " + V,
         "note": "PartialEq::eq of map and set is verified on its real body (R20) for safety, termination and `== implies equal len`; Debug uses debug_map().entries() and is outside Verus' subset; dependence on hasher state is not decided",
         "not_decided": ["element-wise half of PartialEq::eq; Debug bodies", "independence from hasher state", "reflexivity/symmetry/transitivity of =="]},
}
for _p in PROPS.values():
    _p.setdefault("assumptions", []); _p.setdefault("bounded", []); _p.setdefault("not_decided", [])

NOT_APPLICABLE = {
 "C15": "rayon work-splitting schedules: Verus has no model of rayon's consumer/reducer protocol or of threads, Kani has no thread support; no contract within reach can express 'never handed to two workers'",
 "C16": "serde's Serializer/Deserializer/MapAccess are unspecified external generic traits; stating a contract for them would be inventing a model of serde; what griddle contributes reduces to C08 and C01",
}
