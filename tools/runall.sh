#!/bin/sh
# run every registered quick check on the current /repo tree (fresh evidence), in sequence
cd "$(dirname "$0")/.."
rc=0
for p in $(python3 -c "import json;print(' '.join(c['property_id'] for c in json.load(open('MANIFEST.json'))['checks']))"); do
  ./check $p --tier ${1:-quick} | tail -3; r=$?
  [ $r -ne 0 ] && rc=$r
done
python3-vt - <<'PY'
import json, jsonschema, glob
s = json.load(open('/root/.vp/EVIDENCE.schema.json'))
for f in sorted(glob.glob('/verif/evidence/*.json')):
    e = json.load(open(f)); jsonschema.validate(e, s)
    c = e['coverage']
    assert e['level'] != 'proof' or c['obligations'] == c['discharged'], (f, c['obligations'], c['discharged'])
print('evidence files valid')
jsonschema.validate(json.load(open('/verif/MANIFEST.json')), json.load(open('/root/.vp/MANIFEST.schema.json'))); print('manifest valid')
PY
exit $rc
