#!/usr/bin/env python3
"""Regenerate MANIFEST.json from tools/propcfg.py (single source of truth for claims)."""
import json, os, sys
HERE = os.path.dirname(os.path.abspath(__file__))
sys.path.insert(0, HERE)
import propcfg
VERIF = os.path.dirname(HERE)
props = [json.loads(l) for l in open(os.path.join(VERIF, "properties.jsonl"))]
checks, na = [], []
for p in props:
    pid = p["id"]
    c = propcfg.PROPS.get(pid)
    if c is None:
        na.append({"property_id": pid, "reason": propcfg.NOT_APPLICABLE[pid]})
        continue
    checks.append({
        "property_id": pid,
        "quick_cmd": "./check %s --tier quick" % pid,
        "thorough_cmd": "./check %s --tier thorough" % pid,
        "evidence_file": "/verif/evidence/%s.json" % pid,
        "replay_cmd_template": "./check %s --replay {path}" % pid,
        "engine": "verus-contracts",
        "level_claimed": {"category": c["level"], "text": c["claim"], "design_ref": c.get("design_ref", "DESIGN.md section 5, " + pid)},
        "level_note": c["note"],
        "technique": c["technique"],
    })
m = {
    "version": 1,
    "setup_cmd": propcfg.SETUP_CMD,
    "hooks": propcfg.HOOKS,
    "engines": [{"name": "verus-contracts", "path": "/verif/check", "serves_properties": [c["property_id"] for c in checks],
                 "kind_free_text": "contract-based deductive verification: real functions extracted mechanically from /repo on every run (tools/splice.py), contracts from contracts/*.spec, discharged by Verus/Z3 under debug-assertions on and off; Kani/CBMC bounded harnesses on the real crate as labelled stand-ins"}],
    "checks": checks,
    "not_applicable": na,
    "notes": propcfg.NOTES,
}
json.dump(m, open(os.path.join(VERIF, "MANIFEST.json"), "w"), indent=1)
print("MANIFEST.json: %d checks, %d not applicable" % (len(checks), len(na)))
