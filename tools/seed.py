#!/usr/bin/env python3
"""seed.py confirm <mutant-dir> <seed-id> <property>   -- confirm a candidate change in a scratch worktree, store under seeded/
   seed.py eval [<seed-id> ...]                         -- apply each stored patch to /repo, run the pipeline, revert; record what fires
"""
import os, sys, json, subprocess, shutil, time
HERE = os.path.dirname(os.path.abspath(__file__))
VERIF = os.path.dirname(HERE)
sys.path.insert(0, HERE)
REPO = "/repo"


def sh(cmd, cwd=None, timeout=3600):
    r = subprocess.run(cmd, shell=True, cwd=cwd, stdout=subprocess.PIPE, stderr=subprocess.STDOUT, text=True, timeout=timeout)
    return r.returncode, r.stdout


def confirm(mdir, sid, prop):
    wt = "/tmp/confirm-%s" % sid
    sh("git -C %s worktree remove --force %s" % (REPO, wt))
    rc, out = sh("git -C %s worktree add -q --detach %s HEAD" % (REPO, wt))
    assert rc == 0, out
    env = "CARGO_NET_OFFLINE=true CARGO_TARGET_DIR=/tmp/confirm-target "
    res = {}
    try:
        shutil.copy(os.path.join(mdir, "demo.rs"), os.path.join(wt, "tests", "zz_seed_demo.rs"))
        rc, out = sh(env + "cargo test --offline --test zz_seed_demo 2>&1", cwd=wt)
        out = out[-3000:]
        res["demo_on_head"] = "pass" if rc == 0 and "test result: ok" in out else "FAIL"
        res["demo_on_head_tail"] = out[-600:]
        rc, out = sh("git apply %s" % os.path.join(mdir, "patch.diff"), cwd=wt)
        assert rc == 0, out
        os.remove(os.path.join(wt, "tests", "zz_seed_demo.rs"))
        rc, out = sh(env + "cargo test --offline 2>&1 | grep -E 'test result|FAILED|panicked|error' | head -20", cwd=wt)
        res["suite_with_patch"] = "pass" if "FAILED" not in out and "error" not in out and "test result: ok" in out else "FAIL"
        res["suite_with_patch_summary"] = out[-800:]
        shutil.copy(os.path.join(mdir, "demo.rs"), os.path.join(wt, "tests", "zz_seed_demo.rs"))
        rc, out = sh(env + "timeout 900 cargo test --offline --test zz_seed_demo 2>&1", cwd=wt)
        out = out[-3000:]
        res["demo_with_patch"] = "fail (as required)" if rc != 0 else "PASSES (not a mutant)"
        res["demo_with_patch_tail"] = out[-800:]
    finally:
        sh("git -C %s worktree remove --force %s" % (REPO, wt))
    ok = res.get("demo_on_head") == "pass" and res.get("suite_with_patch") == "pass" and res.get("demo_with_patch", "").startswith("fail")
    print(json.dumps({k: v for k, v in res.items() if not k.endswith("tail") and not k.endswith("summary")}), "=> keep" if ok else "=> DISCARD")
    if ok:
        d = os.path.join(VERIF, "seeded", sid)
        os.makedirs(d, exist_ok=True)
        for f in ("patch.diff", "demo.rs", "notes.md"):
            if os.path.exists(os.path.join(mdir, f)):
                shutil.copy(os.path.join(mdir, f), os.path.join(d, f))
        meta = {"id": sid, "breaks_property": prop, "source": "independent sub-agent given only the property text and a scratch worktree",
                "needs_to_manifest": "see notes.md", "confirmed": res,
                "ran": ["git worktree add /tmp/confirm-%s HEAD" % sid, "cargo test --offline --test zz_seed_demo (HEAD: pass)",
                        "git apply patch.diff; cargo test --offline (suite: pass)", "cargo test --offline --test zz_seed_demo (patched: fail)"]}
        json.dump(meta, open(os.path.join(d, "meta.json"), "w"), indent=1)
    return ok


def evaluate(ids):
    """run the Verus pipeline on a scratch copy of /repo with each stored patch applied (never touches /repo itself,
    so background runs that read /repo are not disturbed); record which obligations fail"""
    import pipeline, tempfile
    base = os.path.join(VERIF, "seeded")
    ids = ids or sorted(os.listdir(base))
    for sid in ids:
        d = os.path.join(base, sid)
        if not os.path.exists(os.path.join(d, "patch.diff")):
            continue
        os.makedirs(os.path.join(VERIF, ".work"), exist_ok=True)
        scratch = tempfile.mkdtemp(prefix="seed-%s-" % sid, dir=os.path.join(VERIF, ".work"))
        try:
            shutil.copytree(os.path.join(REPO, "src"), os.path.join(scratch, "src"))
            shutil.copy(os.path.join(REPO, "Cargo.toml"), scratch)
            rc, out = sh("patch -p1 -s -d %s -i %s" % (scratch, os.path.join(d, "patch.diff")))
            if rc != 0:
                print(sid, "patch does not apply:", out[:200])
                continue
            res = pipeline.run_with_demotion(repo=scratch)
        finally:
            shutil.rmtree(scratch, ignore_errors=True)
        fired = {}
        lost_ = pipeline.hint_lost_fns(res)
        all_lost_ = all(pipeline.explained_by_lost_hint(res, f) for fl in res.get("failures", {}).values() for f in fl)
        for prof, fl in res.get("failures", {}).items():
            for f in fl:
                if pipeline.explained_by_lost_hint(res, f):
                    continue   # check.py reports UNDECIDED when every failed obligation sits in a function that lost a hint anchor
                for p in f["props"]:
                    fired.setdefault(p, set()).add("%s@%s" % (f["name"], f["fn"]))
        meta = json.load(open(os.path.join(d, "meta.json")))
        meta["detected_by"] = {p: sorted(v) for p, v in sorted(fired.items())}
        meta["undecided"] = res.get("undecided")
        if lost_ and all_lost_ and any(res.get("failures", {}).values()) and not meta["undecided"]:
            meta["undecided"] = "every failed obligation is in a function that lost a proof-hint anchor (%s)" % ", ".join(sorted(lost_))
        meta["demoted"] = res.get("demoted")
        staked = [fn for fn in res.get("demoted", []) if meta["breaks_property"] in res.get("fn_props", {}).get(fn, [])]
        if staked and not meta["undecided"] and meta["breaks_property"] not in fired:
            meta["undecided"] = "auto-demoted (left the verifier's subset): " + ", ".join(staked)
        adv = [x for x in pipeline.advisories(res, VERIF)]
        meta["advisories"] = [{"kind": x["kind"], "props": sorted(x["props"]), "reason": x["reason"]} for x in adv]
        if not meta["undecided"] and meta["breaks_property"] not in fired:
            for x in adv:
                if meta["breaks_property"] in x["props"]:
                    meta["undecided"] = x["reason"]
        meta["target_property_detected"] = meta["breaks_property"] in fired
        meta["evaluated_at"] = time.strftime("%Y-%m-%dT%H:%M:%SZ", time.gmtime())
        json.dump(meta, open(os.path.join(d, "meta.json"), "w"), indent=1)
        print("%-8s target=%s detected=%s undecided=%s demoted=%s\n         %s" % (
            sid, meta["breaks_property"], meta["target_property_detected"], meta["undecided"], res.get("demoted"),
            "; ".join("%s: %s" % (p, ",".join(v)) for p, v in meta["detected_by"].items())[:900]))


def kani_eval(sid, harness):
    """run one bounded harness against a scratch copy of /repo with the seeded patch applied (never touches /repo)"""
    import tempfile, re
    d = os.path.join(VERIF, "seeded", sid)
    os.makedirs(os.path.join(VERIF, ".work"), exist_ok=True)
    scratch = tempfile.mkdtemp(prefix="kseed-%s-" % sid, dir=os.path.join(VERIF, ".work"))
    try:
        os.makedirs(os.path.join(scratch, "repo"))
        shutil.copytree(os.path.join(REPO, "src"), os.path.join(scratch, "repo", "src"))
        shutil.copytree(os.path.join(REPO, "benches"), os.path.join(scratch, "repo", "benches"))
        for f in ("Cargo.toml", "Cargo.lock"):
            shutil.copy(os.path.join(REPO, f), os.path.join(scratch, "repo", f))
        rc, out = sh("patch -p1 -s -d %s -i %s" % (os.path.join(scratch, "repo"), os.path.join(d, "patch.diff")))
        assert rc == 0, out
        shutil.copytree(os.path.join(VERIF, "kani"), os.path.join(scratch, "kani"), ignore=shutil.ignore_patterns("target"))
        ct = open(os.path.join(scratch, "kani", "Cargo.toml")).read().replace('path = "/repo"', 'path = "%s"' % os.path.join(scratch, "repo"))
        open(os.path.join(scratch, "kani", "Cargo.toml"), "w").write(ct)
        t0 = time.time()
        rc, out = sh("CARGO_NET_OFFLINE=true RUSTFLAGS='--cfg miri' timeout 3000 cargo kani --target-dir %s --output-format terse --exact --harness harnesses::%s 2>&1" % (
            os.path.join(scratch, "target"), harness), cwd=os.path.join(scratch, "kani"), timeout=3600)
        status = "failed" if "VERIFICATION:- FAILED" in out and "Failed Checks" in out else "ok" if "VERIFICATION:- SUCCESSFUL" in out else "inconclusive"
        failed = re.findall(r"Failed Checks: ([^\n]*)", out)[:5]
        meta = json.load(open(os.path.join(d, "meta.json")))
        meta["kani_harness"] = harness
        meta["kani_result_on_mutant"] = {"status": status, "failed_checks": failed, "wall_s": round(time.time() - t0, 1),
                                         "detected": status == "failed"}
        json.dump(meta, open(os.path.join(d, "meta.json"), "w"), indent=1)
        print(sid, harness, status, failed[:2], round(time.time() - t0))
    finally:
        shutil.rmtree(scratch, ignore_errors=True)


if __name__ == "__main__":
    if sys.argv[1] == "kani":
        kani_eval(sys.argv[2], sys.argv[3])
    elif sys.argv[1] == "confirm":
        sys.exit(0 if confirm(sys.argv[2], sys.argv[3], sys.argv[4]) else 1)
    else:
        evaluate(sys.argv[2:])
