#!/usr/bin/env python3
"""Run the Verus pipeline on /repo's current working tree and classify every failed obligation.

  splice (tools/splice.py)  ->  identity check  ->  verus run A (debug-assertions=on, + AIR log)
                                                    verus run B (debug-assertions=off)
                                                    verus run P (vacuity probes)
  -> result dict (see run_pipeline)
"""
import os, sys, re, json, subprocess, time, shutil, hashlib, tempfile
from concurrent.futures import ThreadPoolExecutor

HERE = os.path.dirname(os.path.abspath(__file__))
VERIF = os.path.dirname(HERE)
sys.path.insert(0, HERE)
import rs

VERUS_FLAGS = ["--multiple-errors", "200", "--triggers-mode", "silent", "--error-format=json", "--output-json",
               "--time-expanded"]

VERIFICATION_MESSAGES = [
    "postcondition not satisfied", "precondition not satisfied", "assertion failed",
    "possible arithmetic underflow/overflow", "possible division by zero", "invariant not satisfied",
    "loop invariant not satisfied", "decreases not satisfied", "could not prove termination",
    "loop ensures not satisfied", "unreachable", "recommendation not met", "assertion failure",
    "possible bit shift underflow/overflow", "constructed value may fail to meet its declared type invariant",
]
UNDECIDED_MESSAGES = ["rlimit", "Resource limit", "timed out", "canceled", "solver"]


def sh(cmd, **kw):
    return subprocess.run(cmd, stdout=subprocess.PIPE, stderr=subprocess.PIPE, text=True, **kw)


def verus_version():
    r = sh(["verus", "--version"])
    return (r.stdout + r.stderr).strip().replace("\n", " ")[:200]


def parse_tags(gen_text):
    """line -> (name, props), function regions, sections"""
    tags, fns, sections = {}, [], []
    cur = None
    lines = gen_text.split("\n")
    spans = []  # (start_line, end_line, name, props)
    open_tag = None
    in_block = False
    for n, l in enumerate(lines, 1):
        m = re.search(r"//@fn (.+?) (\S+):(\d+)-(\d+)( external)?\s*$", l)
        if m:
            cur = {"key": m.group(1), "file": m.group(2), "src": [int(m.group(3)), int(m.group(4))],
                   "external": bool(m.group(5)), "start": n, "end": None}
            fns.append(cur)
            continue
        if "//@endfn" in l:
            if cur:
                cur["end"] = n
            cur = None
            continue
        m = re.search(r"//@section (\w+)", l)
        if m:
            sections.append((n, m.group(1)))
            continue
        if "//@begin" in l:
            in_block = True
            continue
        if "//@end" in l:
            if open_tag:
                spans.append((open_tag[0], n - 1, open_tag[1], open_tag[2]))
                open_tag = None
            in_block = False
            continue
        m = re.search(r"//@ (\S+) ?([A-Z0-9,]*)\s*(/\*\+>\*/)?\s*$", l)
        if m:
            props = [p for p in m.group(2).split(",") if p]
            if in_block:
                if open_tag:
                    spans.append((open_tag[0], n - 1, open_tag[1], open_tag[2]))
                open_tag = (n, m.group(1), props)
            else:
                spans.append((n, n, m.group(1), props))
            tags[n] = (m.group(1), props)
    if open_tag:
        spans.append((open_tag[0], open_tag[0], open_tag[1], open_tag[2]))
    return tags, spans, fns, sections, lines


def section_of(sections, line):
    name = "header"
    for n, s in sections:
        if n <= line:
            name = s
    return name


def run_verus(gen, profile, logdir=None, extra=()):
    cmd = ["verus", gen] + VERUS_FLAGS + ["-C", "debug-assertions=%s" % profile] + list(extra)
    if logdir:
        cmd += ["--log-dir", logdir, "--log", "air"]
    t0 = time.time()
    r = sh(cmd)
    wall = time.time() - t0
    diags = []
    nonjson = []
    for l in r.stderr.split("\n"):
        l = l.strip()
        if l.startswith("{"):
            try:
                diags.append(json.loads(l))
            except ValueError:
                nonjson.append(l)
        elif l:
            nonjson.append(l)
    out = None
    try:
        out = json.loads(r.stdout)
    except ValueError:
        pass
    return {"cmd": " ".join(cmd), "rc": r.returncode, "diags": diags, "nonjson": nonjson, "out": out, "wall": wall}


def air_counts(logdir):
    """number of `(assert` per Function-Def in Verus' AIR logs (= verification conditions generated); one log per module"""
    import glob
    counts = {}
    for path in sorted(glob.glob(os.path.join(logdir, "*.air"))):
        if path.endswith("-final.air"):
            continue
        _air_file(path, counts)
    return counts


def _air_file(path, counts):
    cur = None
    for l in open(path):
        if l.startswith(";; Function-Def "):
            cur = re.sub(r"^griddle_verus::((raw|map|set)::)?", "griddle_verus::", l.split()[2])
            counts.setdefault(cur, 0)
        elif l.startswith(";; Function-") or l.startswith(";; Fuel") or l.startswith(";; Datatypes") or l.startswith(";; Traits"):
            cur = None if not l.startswith(";; Function-Def") else cur
        elif cur and l.lstrip().startswith("(assert"):
            counts[cur] += 1
    return counts


def classify(run, tags, spans, fns, sections, lines, fn_props):
    """-> (failures, structural) ; failure = dict(fn, name, props, msg, line, src, text, kind)"""
    failures, structural = [], []
    out = run["out"]
    vr = (out or {}).get("verification-results") or {}
    # rustc / VIR errors abort before any obligation is checked: those are tool rejections, never failed obligations
    verified_stage = bool(vr and not vr.get("encountered-vir-error") and (vr.get("verified", 0) + vr.get("errors", 0)) > 0)

    def fn_at(line):
        for f in fns:
            if f["start"] <= line <= (f["end"] or f["start"]):
                return f
        return None

    def tag_at(line):
        for a, b, name, props in spans:
            if a <= line <= b:
                return name, props
        if line in tags:
            return tags[line]
        return None

    for d in run["diags"]:
        if d.get("level") != "error":
            continue
        msg = d["message"]
        if msg.startswith("aborting due to"):
            continue
        sps = []
        for s_ in d.get("spans", []):
            # a diagnostic inside a macro expansion points into the macro's definition: follow it back to our file
            hop = 0
            while s_ is not None and not s_["file_name"].endswith("griddle_verus.rs") and hop < 8:
                s_ = (s_.get("expansion") or {}).get("span")
                hop += 1
            if s_ is not None and s_["file_name"].endswith("griddle_verus.rs"):
                sps.append(s_)
        prim = [s for s in sps if s["is_primary"]]
        # once Verus has reached the verification stage every error is a failed obligation (or a solver limit)
        is_verif = verified_stage and not d.get("code")
        is_undec = any(m.lower() in msg.lower() for m in UNDECIDED_MESSAGES)
        if not is_verif or is_undec:
            f = fn_at(prim[0]["line_start"]) if prim else None
            if f is None and sps:
                for s in sps:
                    f = fn_at(s["line_start"])
                    if f:
                        break
            structural.append({"msg": msg, "fn": f["key"] if f else None,
                               "line": prim[0]["line_start"] if prim else None,
                               "section": section_of(sections, prim[0]["line_start"]) if prim else None,
                               "rendered": (d.get("rendered") or "")[:1500]})
            continue
        # collect tags from every span
        names, props = [], set()
        f = None
        site_line = None
        for s in sps:
            # the tag of a span is the tag of the clause/statement it *starts* in: a span that merely contains
            # tagged lines (e.g. "at the end of the function body") does not inherit their tags
            t = tag_at(s["line_start"])
            if t:
                names.append(t[0])
                props.update(t[1])
            ff = fn_at(s["line_start"])
            if ff and (f is None or s["is_primary"] and not t):
                f = ff
            if not t and site_line is None and ff:
                site_line = s["line_start"]
        if site_line is None and prim:
            site_line = prim[0]["line_start"]
        text = lines[site_line - 1].strip() if site_line else ""
        text = re.sub(r"/\*<~(.*?)~\*/.*?/\*~>\*/", lambda m: m.group(1).replace("*\\/", "*/"), text)
        text = re.sub(r"/\*<\+\*/.*?/\*\+>\*/", "", text)
        kind = "tagged" if names else "default"
        fkey = f["key"] if f else None
        # default labels by kind and site
        dprops = set()
        if "arithmetic underflow/overflow" in msg or "division by zero" in msg:
            # a size computation that can wrap: the profiles diverge (C17), a debug build panics where no panic is
            # documented (C01, and C13 through the set layer), capacity promises rest on it (C10)
            dprops.update(["C01", "C10", "C13", "C17"])
            if fkey in ("RawTable::try_grow", "RawTable::shrink_to", "RawTable::carry"):
                dprops.add("C04")
            if not names:
                names.append("overflow")
        elif "assertion failed" in msg or "assertion failure" in msg:
            if "debug_assert" in text:
                dprops.update(["C17"])
                names.append("debug_assert") if not names else None
            elif not names:
                dprops.update(["C01"])
                dprops.update(fn_props.get(fkey, []))   # the function panics instead of doing what its contract serves
                if fkey == "RawTable::insert":
                    dprops.add("C04")
                names.append("assert")
        elif "precondition not satisfied" in msg:
            if "debug_assert" in text and not names:
                dprops.update(["C17"])          # a debug-only assertion that can fire: the profiles diverge
                names.append("debug_assert")
            elif re.search(r"\bassert(_eq|_ne)?!", text) and not names:
                dprops.update(["C01"])          # a release-mode assertion that can fire: an undocumented panic
                dprops.update(fn_props.get(fkey, []))   # ... in place of what the function's contract serves
                if fkey == "RawTable::insert":
                    dprops.add("C04")
                names.append("assert")
            elif "unreachable_unchecked" in text:
                dprops.update(["C05", "C17"])   # UB in release, a (non-unwinding) panic under debug assertions: the profiles diverge
                names.append("unreachable_unchecked") if not names else None
            elif "unreachable!" in text:
                dprops.update(["C05", "C01"])
                names.append("unreachable") if not names else None
            elif ".expect(" in text or "expect(" in text or ".unwrap(" in text:
                dprops.update(["C01", "C10"])
                names.append("expect") if not names else None
            elif re.search(r"\bhasher\s*\(", text) and not names:
                # the hasher was applied to something the contract does not let this function hash (hash budget)
                dprops.update(["C02", "C07"])
                names.append("hash_budget")
            if any(n.startswith("dep.") for n in names):
                dprops.add("C05")
                dprops.update(fn_props.get(fkey, []))   # undefined behaviour / a dependency panic inside F in place of what F's contract serves
        elif "callee.requires" in msg:
            # a call of a user closure whose precondition the contract does not grant
            if re.search(r"\bhasher\s*\(", text) and not names:
                dprops.update(["C02", "C07"])   # hash budget: the hasher was applied to something this function may not hash
                names.append("hash_budget")
            elif not names:
                dprops.update(["C07"])
                names.append("closure_call")
        elif "decreases" in msg or "termination" in msg:
            if not names:
                dprops.update(["C02", "C03"])
                names.append("termination")
        if not names:
            names.append("unlabelled")
        if not props and not dprops:
            # an undischarged obligation nobody labelled: charge it to every property with a clause on this fn
            dprops.update(fn_props.get(fkey, []))
        props.update(dprops)
        src = None
        failures.append({"fn": fkey, "name": "+".join(dict.fromkeys(names)), "props": sorted(props), "msg": msg,
                         "gen_line": site_line, "text": text[:300], "kind": kind,
                         "src": ("%s:%d-%d" % (f["file"], f["src"][0], f["src"][1])) if f else None,
                         "rendered": (d.get("rendered") or "")[:3000]})
    return failures, structural


def identity_check(gen_text, repo, meta):
    """undo every marked edit in each extracted function and compare token-by-token with /repo"""
    sys.path.insert(0, HERE)
    import splice
    bad, checked = [], 0
    srcs = {}
    for m in re.finditer(r"//@fn (.+?) (\S+):(\d+)-(\d+)( external)?\s*\n(.*?)\n//@endfn", gen_text, re.S):
        key, path, a, b, body = m.group(1), m.group(2), int(m.group(3)), int(m.group(4)), m.group(6)
        body = re.sub(r"^//@stake [^\n]*\n", "", body)
        body = re.sub(r"^#\[verifier::external_body\]\n", "", body)
        fspec_attr = re.match(r"^(#\[verifier::[^\n]*\]\n)*", body)
        body = body[fspec_attr.end():]
        body = re.sub(r"/\*<\+\*/.*?/\*\+>\*/", "", body, flags=re.S)
        body = re.sub(r"/\*<~(.*?)~\*/.*?/\*~>\*/", lambda mm: mm.group(1).replace("*\\/", "*/"), body, flags=re.S)
        if path not in srcs:
            srcs[path] = open(os.path.join(repo, path)).read().split("\n")
        orig = "\n".join(srcs[path][a - 1:b])
        def toks(s):
            out = []
            tl = rs.tokenize(s)
            k = 0
            while k < len(tl):
                t = tl[k]
                if t.kind in ("ws", "comment", "doc"):
                    k += 1
                    continue
                if t.kind == "punct" and t.text == "#":
                    j = k + 1
                    while tl[j].text != "[":
                        j += 1
                    e = rs.match_close(tl, j)
                    text = rs.norm(tl, k, e + 1)
                    if text.startswith("# [ cfg (") or any(re.match(p, text) for p in splice.R2_ATTRS):
                        k = e + 1
                        continue
                out.append(t.text)
                k += 1
            return out
        to, tg = toks(orig), toks(body)
        # the original slice may start with attributes on the same lines; compare from the first shared token
        checked += 1
        if to != tg:
            # find first difference
            i = 0
            while i < min(len(to), len(tg)) and to[i] == tg[i]:
                i += 1
            bad.append({"fn": key, "at": i, "orig": " ".join(to[i:i + 8]), "gen": " ".join(tg[i:i + 8])})
    return checked, bad


def run_pipeline(repo="/repo", workdir=None, keep=False, seed=0, extra_verus=(), profiles=("on", "off"), probes=True,
                 demote=()):
    t0 = time.time()
    own = workdir is None
    if own:
        os.makedirs(os.path.join(VERIF, ".work"), exist_ok=True)
        workdir = tempfile.mkdtemp(prefix="run-", dir=os.path.join(VERIF, ".work"))
    res = {"undecided": None, "failures": {}, "structural": [], "runs": {}, "demoted": list(demote), "repo": repo}
    try:
        env = dict(os.environ)
        gen = os.path.join(workdir, "gen")
        cmd = [sys.executable, os.path.join(HERE, "splice.py"), "--repo", repo, "--out", gen]
        for d in demote:
            cmd += ["--demote", d]
        r = sh(cmd)
        res["splice_stdout"] = r.stdout.strip()
        if r.returncode != 0:
            res["undecided"] = "extraction: " + (r.stdout.strip() or r.stderr.strip()[-600:])
            return res
        meta = json.load(open(os.path.join(gen, "meta.json")))
        res["meta"] = {k: v for k, v in meta.items() if k != "linemap"}
        gen_file = os.path.join(gen, "griddle_verus.rs")
        gen_text = open(gen_file).read()
        res["gen_sha256"] = hashlib.sha256(gen_text.encode()).hexdigest()
        tags, spans, fns, sections, lines = parse_tags(gen_text)
        # per-function property stake
        fn_props, prop_clauses = {}, {}
        for a, b, name, props in spans:
            f = None
            for ff in fns:
                if ff["start"] <= a <= (ff["end"] or ff["start"]):
                    f = ff
            sec = section_of(sections, a)
            for p in props:
                prop_clauses.setdefault(p, []).append({"name": name, "fn": f["key"] if f else sec, "line": a,
                                                       "text": lines[a - 1].strip()[:240]})
                if f:
                    fn_props.setdefault(f["key"], set()).add(p)
        for ln, (name, props) in tags.items():
            if not any(a <= ln <= b for a, b, _, _ in spans):
                f = None
                for ff in fns:
                    if ff["start"] <= ln <= (ff["end"] or ff["start"]):
                        f = ff
                sec = section_of(sections, ln)
                for p in props:
                    prop_clauses.setdefault(p, []).append({"name": name, "fn": f["key"] if f else sec, "line": ln,
                                                           "text": lines[ln - 1].strip()[:240]})
                    if f:
                        fn_props.setdefault(f["key"], set()).add(p)
        for mf in meta["functions"]:
            for p_ in mf.get("stake", []):
                fn_props.setdefault(mf["key"], set()).add(p_)
        # implicit obligations (C17): Verus checks every machine-integer operation for overflow and every debug_assert!/
        # cfg!(debug_assertions) arm in both profiles without any clause being written; the functions that contain them
        # carry the property (so that demoting one of them leaves C17 undecided, and the evidence lists them)
        srcs = {}
        for mf in meta["functions"]:
            if mf.get("external"):
                continue
            try:
                if mf["file"] not in srcs:
                    srcs[mf["file"]] = open(os.path.join(repo, mf["file"])).read().split("\n")
                body = srcs[mf["file"]][mf["src_lines"][0] - 1: mf["src_lines"][1]]
            except (OSError, KeyError, IndexError):
                continue
            open_at = next((i_ for i_, l in enumerate(body) if l.split("//")[0].rstrip().endswith("{")), 0)
            body = body[open_at + 1:]            # the signature and where clause (`Q: Hash + Eq`) are not arithmetic
            code = [re.sub(r'"(\\.|[^"\\])*"', '""', l.split("//")[0]) for l in body]
            arith = [l.strip() for l in code if re.search(r"[\w\)\]]\s(\+|-|\*|/|%)=?\s[\w\(]|\s(\+|-|\*)=\s", l) and "->" not in l.replace("=>", "")]
            dbg = [l.strip() for l in code if "debug_assert" in l or "cfg!(debug_assertions)" in l]
            if arith or dbg:
                fn_props.setdefault(mf["key"], set()).add("C17")
                what = []
                if arith:
                    what.append("%d line(s) of machine arithmetic, e.g. `%s`" % (len(arith), arith[0][:80]))
                if dbg:
                    what.append("%d debug-only assertion(s)/cfg arm(s)" % len(dbg))
                prop_clauses.setdefault("C17", []).append({"name": "implicit.overflow_and_debug_only", "fn": mf["key"], "line": 0,
                                                           "text": "implicit obligations checked in both profiles: " + "; ".join(what)})
        res["fn_props"] = {k: sorted(v) for k, v in fn_props.items()}
        res["prop_clauses"] = prop_clauses
        # identity
        checked, bad = identity_check(gen_text, repo, meta)
        res["identity"] = {"checked": checked, "mismatches": bad}
        if bad:
            res["undecided"] = "identity check failed for %s" % ", ".join(b["fn"] for b in bad)
            return res
        # assume scan
        scan = {"model": 0, "code_external_body": [], "forbidden": []}
        for n, l in enumerate(lines, 1):
            sec = section_of(sections, n)
            code = l.split("//")[0]
            if re.search(r"\b(assume|admit)\s*\(|external_body|assume_specification|\bexternal\b|verifier::external", code):
                if sec == "model":
                    scan["model"] += 1
                elif sec == "code" and "#[verifier::external_body]" in code:
                    scan["code_external_body"].append(n)
                else:
                    scan["forbidden"].append({"line": n, "text": l.strip()[:200], "section": sec})
        # the lent-closure axiom equates the specifications of two closure values of one type: it is sound for the value of
        # `eq` before / after it is lent to hashbrown's `find`, and must not be invoked anywhere else
        lent_calls = [n for n, l in enumerate(lines, 1) if "axiom_lent_closure_unchanged(" in l.split("//")[0] and section_of(sections, n) != "model"]
        if len(lent_calls) > 1:
            scan["forbidden"].append({"line": lent_calls[1], "text": "axiom_lent_closure_unchanged invoked more than once", "section": "code"})
        ext_expected = len(meta["external"])
        if len(scan["code_external_body"]) != ext_expected or scan["forbidden"]:
            res["undecided"] = "assume/admit/external_body scan: unexpected trusted item(s): %s" % json.dumps(scan["forbidden"])[:400]
            res["scan"] = scan
            return res
        res["scan"] = scan
        # probes file
        jobs = {}
        seedopt = ["--smt-option", "smt.random_seed=%d" % seed] if seed else []
        with ThreadPoolExecutor(max_workers=4) as ex:
            for prof in profiles:
                logdir = os.path.join(workdir, "log-" + prof) if prof == profiles[0] else None
                jobs[prof] = ex.submit(run_verus, gen_file, prof, logdir, tuple(extra_verus) + tuple(seedopt))
            if probes:
                pgen = os.path.join(workdir, "gen-probes")
                r = sh(cmd[:-1] + [pgen, "--probes"] if False else
                       [sys.executable, os.path.join(HERE, "splice.py"), "--repo", repo, "--out", pgen, "--probes"] +
                       sum((["--demote", d] for d in demote), []))
                if r.returncode != 0:
                    res["undecided"] = "probe extraction: " + r.stdout.strip()
                    return res
                jobs["probes"] = ex.submit(run_verus, os.path.join(pgen, "griddle_verus.rs"), profiles[0], None, ())
        for name, fut in jobs.items():
            run = fut.result()
            if name == "probes":
                ptext = open(os.path.join(workdir, "gen-probes", "griddle_verus.rs")).read()
                ptags, pspans, pfns, psecs, plines = parse_tags(ptext)
                want = sorted(n for n, (nm, _) in ptags.items() if nm.startswith("probe."))
                failed_lines = set()
                for d in run["diags"]:
                    if d.get("level") == "error" and "assertion failed" in d["message"]:
                        for s in d["spans"]:
                            if s["is_primary"]:
                                failed_lines.add(s["line_start"])
                vac = [ptags[n][0] for n in want if n not in failed_lines]
                res["vacuity"] = {"probes": len(want), "failed_as_expected": len(want) - len(vac), "vacuous": vac}
                res["runs"]["probes"] = {"cmd": run["cmd"], "wall": run["wall"], "rc": run["rc"]}
                continue
            failures, structural = classify(run, tags, spans, fns, sections, lines, res["fn_props"])
            res["failures"][name] = failures
            for s in structural:
                s["profile"] = name
            res["structural"] += structural
            out = run["out"] or {}
            vr = out.get("verification-results", {})
            fb = []
            try:
                for mt in out["times-ms"]["smt"]["smt-run-module-times"]:
                    fb += mt.get("function-breakdown", [])
            except (KeyError, TypeError):
                pass
            res["runs"][name] = {"cmd": run["cmd"], "wall": round(run["wall"], 2), "rc": run["rc"],
                                 "verified": vr.get("verified"), "errors": vr.get("errors"),
                                 "smt_ms": (out.get("times-ms", {}).get("smt", {}) or {}).get("total"),
                                 "functions": {re.sub(r"^griddle_verus::((raw|map|set)::)?", "", f["function"]): {"ms": f["time"], "rlimit": f["rlimit"], "ok": f["success"]} for f in fb},
                                 "nonjson": run["nonjson"][:5], "verus": out.get("verus", {})}
            if name == profiles[0]:
                res["air"] = air_counts(os.path.join(workdir, "log-" + name))
        if res["structural"]:
            pass
        res["wall"] = round(time.time() - t0, 2)
        return res
    finally:
        if own and not keep:
            shutil.rmtree(workdir, ignore_errors=True)


def run_with_demotion(repo="/repo", **kw):
    """auto-demotion: a construct Verus rejects inside one function => that function becomes external_body,
    the run is repeated and the function is reported UNDECIDED (never an alarm)"""
    demote, log = [], []
    for _ in range(6):
        res = run_pipeline(repo=repo, demote=tuple(demote), **kw)
        if res.get("undecided"):
            # an extraction problem confined to one function (lost loop anchor, a loop the contract does not know):
            # that function is demoted like one the verifier rejects, the rest is still decided
            m = re.search(r"\[demotable fn=([^\]]+)\]", res["undecided"])
            if m and m.group(1) not in demote:
                demote.append(m.group(1))
                log.append({"fn": m.group(1), "msg": res["undecided"][:300], "profile": "extraction"})
                continue
            res["demotion_log"] = log
            return res
        new = sorted(set(s["fn"] for s in res["structural"] if s["fn"] and s["fn"] not in demote))
        if not new:
            break
        log += [s for s in res["structural"] if s["fn"] in new]
        demote += new
    res["demoted"] = demote
    res["demotion_log"] = log
    return res


if __name__ == "__main__":
    import argparse
    ap = argparse.ArgumentParser()
    ap.add_argument("--repo", default="/repo")
    ap.add_argument("--keep", action="store_true")
    ap.add_argument("--json", action="store_true")
    a = ap.parse_args()
    res = run_with_demotion(repo=a.repo, keep=a.keep)
    if a.json:
        print(json.dumps(res, indent=1, default=list))
    else:
        print("undecided:", res.get("undecided"))
        print("demoted:", res.get("demoted"))
        for prof, fl in res.get("failures", {}).items():
            print("profile", prof, res["runs"].get(prof, {}).get("verified"), "verified;", len(fl), "failed obligations")
            for f in fl:
                print("   ", f["fn"], f["name"], f["props"], "|", f["msg"], "|", f["text"][:100])
        for s in res.get("structural", []) + res.get("demotion_log", []):
            print("STRUCTURAL", s["profile"], s["fn"], s["msg"][:300])
        print("vacuity:", res.get("vacuity"))
        print("identity:", res.get("identity"))
        print("wall:", res.get("wall"))


def advisories(res, verif=None):
    """conditions under which a pass (or a failure) of some properties cannot be trusted: never alarms, always UNDECIDED.
    Returns [{"kind", "props": set of property ids, "reason"}]."""
    verif = verif or os.path.dirname(os.path.dirname(os.path.abspath(__file__)))
    out = []
    meta = res.get("meta", {}) or {}
    fn_props = res.get("fn_props", {}) or {}
    try:
        pins = json.load(open(os.path.join(verif, "contracts", "external_pins.json")))
    except (OSError, ValueError):
        pins = {}
    for f in meta.get("functions", []):
        if f.get("external") and f["key"] in pins and pins[f["key"]] != f["tokhash"] and f["key"] not in (res.get("demoted") or []):
            out.append({"kind": "assumed-function-changed", "props": set(fn_props.get(f["key"], [])) | set(f.get("stake", [])),
                        "reason": "assumed (external_body) function %s differs from the text its contract was written for: the assumption no longer applies" % f["key"]})
    # functions of the three files that are neither verified nor assumed (iterator adapters, Debug, Drop, operator impls ...):
    # no obligation covers them, so a change to one of them must not pass for "verified"
    try:
        upins = json.load(open(os.path.join(verif, "contracts", "unverified_pins.json")))
    except (OSError, ValueError):
        upins = {}
    for u in meta.get("unextracted", []):
        ent = upins.get("%s|%s" % (u["file"], u["key"]))
        if ent and ent["tokhash"] != u["tokhash"] and ent["props"]:
            out.append({"kind": "unverified-function-changed", "props": set(ent["props"]),
                        "reason": "%s (%s) is outside what the verifier covers (not extracted) and differs from the pinned text: nothing is known about the change" % (u["key"], u["file"])})
    # the dependency model is written for hashbrown 0.14.5: another locked version makes every assumption about it void
    repo_ = res.get("repo") or "/repo"
    try:
        lock = open(os.path.join(repo_, "Cargo.lock")).read()
        m_ = re.search(r'name = "hashbrown"\nversion = "([^"]+)"', lock)
        if m_ and m_.group(1) != "0.14.5":
            out.append({"kind": "dependency-version", "props": set("C%02d" % i for i in range(1, 18)),
                        "reason": "Cargo.lock pins hashbrown %s; model/hashbrown_0_14_5.rs describes 0.14.5" % m_.group(1)})
    except OSError:
        pass
    un = meta.get("unspecified_iterator_methods", [])
    if un:
        out.append({"kind": "iterator-method-without-contract", "props": {"C08", "C13", "C14"},
                    "reason": "iterator method(s) without a contract: %s -- an override of a provided Iterator method changes what is yielded and no clause covers it" % ", ".join(u["fn"] for u in un)})
    return out


def hint_lost_fns(res):
    """functions in which some proof hint / closure contract / restructuring rule lost its anchor (see explained_by_lost_hint)"""
    return set(sk.get("fn") for sk in (res.get("meta", {}) or {}).get("skipped_anchors", []) if sk.get("fn"))


_HINT_SERVES = None


def explained_by_lost_hint(res, failure):
    """May the failed obligation `failure` (dict with fn, name) be failing only because a proof hint of its function lost its
    anchor? For a text-anchored ghost hint the answer comes from contracts/hint_serves.json (tools/hintmap.py: the clauses
    that fail on the pinned tree when exactly that hint is left out); a lost closure contract or restructuring rule, or a hint
    without an entry, may explain any failure in its function."""
    global _HINT_SERVES
    if _HINT_SERVES is None:
        try:
            _HINT_SERVES = json.load(open(os.path.join(VERIF, "contracts", "hint_serves.json")))
        except (OSError, ValueError):
            _HINT_SERVES = {}
    for sk in (res.get("meta", {}) or {}).get("skipped_anchors", []):
        if sk.get("fn") != failure["fn"]:
            continue
        if sk.get("excuses") is False:
            continue   # recorded for the log only: there is nothing in the function the lost spec could have served
        if sk.get("kind") == "closure":
            ent = _HINT_SERVES.get("closure:%s#%s" % (sk.get("fn"), sk.get("ordinal")))
            if ent is None or ent.get("serves") is None or failure["name"] in ent["serves"]:
                return True
            continue
        if sk.get("kind") != "ghost":
            return True
        ent = _HINT_SERVES.get(sk.get("name"))
        if ent is None or ent.get("serves") is None:
            return True
        if failure["name"] in ent["serves"]:
            return True
    return False
