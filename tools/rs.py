"""A small Rust tokenizer and item splitter, enough to copy items verbatim out of /repo.

Not a parser: it knows comments, strings (incl. raw/byte), char literals vs lifetimes, numbers,
identifiers, multi-character punctuation and bracket matching.  Everything else is left as text.
"""
import re
from collections import namedtuple

Tok = namedtuple("Tok", "kind text start end")  # kind: ws comment doc str char life ident num punct

PUNCT3 = ["..=", "...", "<<=", ">>="]
PUNCT2 = ["->", "=>", "::", "==", "!=", "<=", ">=", "&&", "||", "+=", "-=", "*=", "/=", "%=",
          "^=", "&=", "|=", ".."]
IDENT = re.compile(r"[A-Za-z_][A-Za-z0-9_]*")
NUM = re.compile(r"[0-9][0-9A-Za-z_]*(\.[0-9][0-9A-Za-z_]*)?")


class LexError(Exception):
    pass


def tokenize(s):
    toks = []
    i, n = 0, len(s)
    while i < n:
        c = s[i]
        if c in " \t\r\n":
            j = i
            while j < n and s[j] in " \t\r\n":
                j += 1
            toks.append(Tok("ws", s[i:j], i, j))
            i = j
        elif s.startswith("//", i):
            j = s.find("\n", i)
            if j < 0:
                j = n
            text = s[i:j]
            kind = "doc" if (text.startswith("///") and not text.startswith("////")) or text.startswith("//!") else "comment"
            toks.append(Tok(kind, text, i, j))
            i = j
        elif s.startswith("/*", i):
            depth, j = 1, i + 2
            while j < n and depth:
                if s.startswith("/*", j):
                    depth += 1
                    j += 2
                elif s.startswith("*/", j):
                    depth -= 1
                    j += 2
                else:
                    j += 1
            if depth:
                raise LexError("unterminated block comment at %d" % i)
            toks.append(Tok("comment", s[i:j], i, j))
            i = j
        elif c == '"' or (c in "br" and re.match(r'(b?r#*"|b")', s[i:i + 8])):
            m = re.match(r'(b?)(r(#*))?"', s[i:])
            if m.group(2) is not None:
                closer = '"' + m.group(3)
                j = s.find(closer, i + m.end())
                if j < 0:
                    raise LexError("unterminated raw string at %d" % i)
                j += len(closer)
            else:
                j = i + m.end()
                while j < n and s[j] != '"':
                    j += 2 if s[j] == "\\" else 1
                if j >= n:
                    raise LexError("unterminated string at %d" % i)
                j += 1
            toks.append(Tok("str", s[i:j], i, j))
            i = j
        elif c == "'" or (c == "b" and s.startswith("b'", i)):
            k = i + (2 if c == "b" else 1)
            # char literal: '\..' or 'x' ; otherwise lifetime
            m = re.match(r"(\\(x[0-9a-fA-F]{2}|u\{[0-9a-fA-F_]+\}|.)|[^\\'])'", s[k:])
            if m:
                j = k + m.end()
                toks.append(Tok("char", s[i:j], i, j))
            else:
                m = IDENT.match(s, k)
                if not m:
                    raise LexError("stray quote at %d" % i)
                j = m.end()
                toks.append(Tok("life", s[i:j], i, j))
            i = j
        elif c.isalpha() or c == "_":
            m = IDENT.match(s, i)
            # raw identifiers r#foo
            if m.group(0) == "r" and s.startswith("r#", i):
                m2 = IDENT.match(s, i + 2)
                j = m2.end()
            else:
                j = m.end()
            toks.append(Tok("ident", s[i:j], i, j))
            i = j
        elif c.isdigit():
            m = NUM.match(s, i)
            j = m.end()
            # `0..R` : do not swallow the range dots
            if ".." in s[i:j]:
                j = i + s[i:j].index("..")
            elif s[j - 1] == ".":
                j -= 1
            toks.append(Tok("num", s[i:j], i, j))
            i = j
        else:
            for p in PUNCT3:
                if s.startswith(p, i):
                    toks.append(Tok("punct", p, i, i + 3))
                    i += 3
                    break
            else:
                for p in PUNCT2:
                    if s.startswith(p, i):
                        toks.append(Tok("punct", p, i, i + 2))
                        i += 2
                        break
                else:
                    toks.append(Tok("punct", c, i, i + 1))
                    i += 1
    return toks


OPEN = {"(": ")", "[": "]", "{": "}"}
CLOSE = {")", "]", "}"}


def sig(toks):
    """indices of significant tokens (not ws/comment/doc)"""
    return [k for k, t in enumerate(toks) if t.kind not in ("ws", "comment", "doc")]


def match_close(toks, k):
    """toks[k] is an opening bracket; return index of its closing bracket"""
    depth = 0
    for j in range(k, len(toks)):
        t = toks[j]
        if t.kind == "punct":
            if t.text in OPEN:
                depth += 1
            elif t.text in CLOSE:
                depth -= 1
                if depth == 0:
                    return j
    raise LexError("unbalanced bracket at token %d (%r)" % (k, toks[k].text))


Item = namedtuple("Item", "kind name lo hi attrs_lo head_lo body_lo body_hi")
# lo..hi: token index range [lo, hi) incl. leading attributes/docs; head_lo: first token after attrs;
# body_lo/body_hi: indices of '{' and '}' for block items (else None)

ITEM_KW = {"fn", "struct", "enum", "impl", "trait", "mod", "use", "const", "static", "type",
           "macro_rules", "extern", "union"}
SEMI_ONLY = {"use", "const", "static", "type"}


def split_items(toks, lo, hi):
    """Split toks[lo:hi] (the inside of a file or of an impl/mod body) into items."""
    items = []
    k = lo
    while k < hi:
        # skip ws/comments that are not docs
        while k < hi and toks[k].kind in ("ws", "comment"):
            k += 1
        if k >= hi:
            break
        start = k
        # attributes and docs
        while k < hi:
            t = toks[k]
            if t.kind in ("ws", "comment", "doc"):
                k += 1
            elif t.kind == "punct" and t.text == "#":
                j = k + 1
                while toks[j].kind == "ws" or (toks[j].kind == "punct" and toks[j].text == "!"):
                    j += 1
                assert toks[j].text == "[", "attribute expected"
                k = match_close(toks, j) + 1
            else:
                break
        if k >= hi:
            break
        head = k
        # find the item keyword (skip visibility / qualifiers)
        kw, name = None, None
        j = k
        while j < hi:
            t = toks[j]
            if t.kind == "ident" and t.text in ITEM_KW:
                # `const fn`, `unsafe fn`, `extern "C" fn`, `unsafe impl`
                if t.text in ("const", "extern") and kw is None:
                    # look ahead: const fn / const unsafe fn
                    jj = j + 1
                    while jj < hi and (toks[jj].kind in ("ws", "comment", "str") or
                                       (toks[jj].kind == "ident" and toks[jj].text in ("unsafe", "async", "extern"))):
                        jj += 1
                    if jj < hi and toks[jj].kind == "ident" and toks[jj].text == "fn":
                        j = jj
                        continue
                kw = t.text
                break
            if t.kind == "punct" and t.text == "(":  # pub(crate)
                j = match_close(toks, j) + 1
                continue
            j += 1
        if kw is None:
            raise LexError("no item keyword from token %d: %r" % (k, "".join(x.text for x in toks[k:k + 12])))
        # name
        jj = j + 1
        while jj < hi and toks[jj].kind in ("ws", "comment"):
            jj += 1
        if kw == "macro_rules":
            jj += 1
            while toks[jj].kind in ("ws", "comment"):
                jj += 1
        if kw == "impl":
            name = None
        elif jj < hi and toks[jj].kind == "ident":
            name = toks[jj].text
        # end of item
        depth = 0
        end = None
        body_lo = body_hi = None
        m = j
        while m < hi:
            t = toks[m]
            if t.kind == "punct":
                if t.text in OPEN:
                    if t.text == "{" and depth == 0 and kw not in SEMI_ONLY:
                        body_lo = m
                        body_hi = match_close(toks, m)
                        end = body_hi + 1
                        break
                    m = match_close(toks, m)
                elif t.text == ";" and depth == 0:
                    end = m + 1
                    break
            m += 1
        if end is None:
            raise LexError("unterminated item %s %s" % (kw, name))
        items.append(Item(kw, name, start, end, start, head, body_lo, body_hi))
        k = end
    return items


def text_of(toks, lo, hi):
    return "".join(t.text for t in toks[lo:hi])


def norm(toks, lo, hi):
    """whitespace/comment-insensitive rendering of a token range"""
    return " ".join(t.text for t in toks[lo:hi] if t.kind not in ("ws", "comment", "doc"))


def norm_text(s):
    t = tokenize(s)
    return norm(t, 0, len(t))
