#!/usr/bin/env python3
"""summary of seeded/*/meta.json: which tier reports the property each seeded change was written to break"""
import json, os, sys
base = os.path.join(os.path.dirname(os.path.dirname(os.path.abspath(__file__))), "seeded")
reg = {h["name"]: h for h in json.load(open(os.path.join(os.path.dirname(base), "kani", "harnesses.json")))["harnesses"]} \
    if isinstance(json.load(open(os.path.join(os.path.dirname(base), "kani", "harnesses.json"))), dict) else \
    {h["name"]: h for h in json.load(open(os.path.join(os.path.dirname(base), "kani", "harnesses.json")))}
rows = []
for sid in sorted(os.listdir(base)):
    m = json.load(open(os.path.join(base, sid, "meta.json")))
    k = m.get("kani_result_on_mutant") or {}
    kh = m.get("kani_harness")
    rows.append(dict(id=sid, prop=m["breaks_property"], verus=bool(m.get("target_property_detected")), undecided=m.get("undecided"),
                     other=sorted(m.get("detected_by", {}).keys()), kani=kh if k.get("detected") else None, kani_status=k.get("status"),
                     kani_quick=bool(kh and reg.get(kh, {}).get("quick")) if k.get("detected") else False))
tot = len(rows)
v = [r for r in rows if r["verus"]]
both = [r for r in v if r["kani"]]
konly = [r for r in rows if not r["verus"] and r["kani"]]
und = [r for r in rows if not r["verus"] and not r["kani"] and r["undecided"]]
rest = [r for r in rows if not r["verus"] and not r["kani"] and not r["undecided"]]
print("seeds: %d" % tot)
print("reported for the targeted property by Verus (quick tier): %d (of these also by a Kani harness: %d)" % (len(v), len(both)))
print("reported only by a bounded Kani harness: %d (quick-tier harness: %d)  %s" % (len(konly), sum(r["kani_quick"] for r in konly), " ".join("%s:%s%s" % (r["id"], r["kani"], "" if not r["undecided"] else "(Verus UNDECIDED)") for r in konly)))
print("UNDECIDED (exit 2), no harness: %d  %s" % (len(und), " ".join(r["id"] for r in und)))
print("not reported for the targeted property: %d  %s" % (len(rest), " ".join("%s[%s;kani=%s]" % (r["id"], ",".join(r["other"]), r["kani_status"]) for r in rest)))
