#!/usr/bin/env python3
"""Extract items verbatim from /repo, splice contracts in, write gen/griddle_verus.rs + gen/meta.json.

Every change made to the repository text is one of the rules R1..R20 (DESIGN.md 4.2); each is
rendered with a marker so that tools/identity.py can undo it mechanically:
   /*<+*/ inserted text /*+>*/            (contracts, ghost code, braces around closure bodies)
   /*<~ORIGINAL~*/replacement/*~>*/       (R1, R4, R5, R6, R7, R8, R11, R13, R14, R16, R17)
Deleted text is only: doc comments, the attributes of R2, cfg attributes already resolved (R3).
"""
import sys, os, re, json, hashlib
sys.path.insert(0, os.path.dirname(os.path.abspath(__file__)))
import rs, specfile


class Undecided(Exception):
    """lost mandatory anchor or unsupported shape: exit 2, never an alarm"""


CFG = {"test": False, "miri": False, "feature:rayon": False, "feature:serde": False,
       "feature:inline-more": True, "feature:ahash": True, "feature:verif-hooks": False,
       "feature:nightly": False, "feature:raw": True, "kani": False, "coverage": False, "coverage_nightly": False}

R2_ATTRS = [r"^# \[ inline \]$", r"^# \[ cold \]$", r"^# \[ inline \( (never|always) \) \]$",
            r"^# \[ cfg_attr \( feature = \"inline-more\" , inline \) \]$",
            r"^# \[ (allow|warn|deny) \(.*\) \]$", r"^# \[ must_use.*\]$", r"^# \[ track_caller \]$",
            r"^# \[ doc.*\]$", r"^# \[ derive \( .* \) \]$_never"]

R1 = {("raw", "::", "RawTable"): "HbTable", ("raw", "::", "RawIter"): "HbIter",
      ("raw", "::", "Bucket"): "HbBucket", ("raw", "::", "RawIntoIter"): "HbIntoIter",
      ("raw", "::", "RawDrain"): "HbDrain"}


def eval_cfg(toks):
    """toks: significant tokens of the cfg predicate"""
    pos = [0]

    def peek():
        return toks[pos[0]].text if pos[0] < len(toks) else None

    def take():
        pos[0] += 1
        return toks[pos[0] - 1].text

    def pred():
        name = take()
        if name in ("any", "all", "not"):
            assert take() == "("
            vals = []
            while peek() != ")":
                vals.append(pred())
                if peek() == ",":
                    take()
            take()
            if name == "any":
                return any(vals)
            if name == "all":
                return all(vals)
            return not vals[0]
        if peek() == "=":
            take()
            v = take().strip('"')
            key = "%s:%s" % (name, v)
        else:
            key = name
        if key not in CFG:
            raise Undecided("unknown cfg predicate %r" % key)
        return CFG[key]

    return pred()


def esc(s):
    return s.replace("*/", "*\\/")


class Gen:
    def __init__(self, repo):
        self.repo = repo
        self.pieces = []  # (text, (file, offset) | None)
        self.meta = {"functions": [], "rules": {}, "skipped_anchors": [], "dropped_items": [],
                     "external": [], "r13_r14": [], "files": {}}

    def hit(self, rule, n=1):
        self.meta["rules"][rule] = self.meta["rules"].get(rule, 0) + n

    def raw(self, text):
        self.pieces.append((text, None))

    def render(self):
        out, line, linemap = [], 1, {}
        for text, src in self.pieces:
            if src is not None and line not in linemap:
                linemap[line] = src
            out.append(text)
            line += text.count("\n")
        return "".join(out), linemap


def clause_lines(clauses, kinds_order=("requires", "ensures", "invariant", "decreases"), indent="        "):
    """render clauses grouped by kind, one clause per tagged line"""
    out = []
    order = []
    for c in clauses:
        if c.kind not in order:
            order.append(c.kind)
    order.sort(key=lambda k: {"requires": 0, "invariant": 0, "ensures": 1, "decreases": 2}[k])
    out.append("%s//@begin\n" % indent[:-4])
    for kind in order:
        out.append("%s%s\n" % (indent[:-4], kind))
        for c in clauses:
            if c.kind != kind:
                continue
            lines = c.expr.split("\n")
            tag = " //@ %s %s" % (c.name, ",".join(c.props))
            if kind == "decreases":
                sep = "" if c is [x for x in clauses if x.kind == kind][-1] else ","
            else:
                sep = ","
            if len(lines) == 1:
                out.append("%s%s%s%s\n" % (indent, lines[0], sep, tag))
            else:
                out.append("%s%s%s\n" % (indent, lines[0], tag))
                for l in lines[1:-1]:
                    out.append("%s    %s\n" % (indent, l))
                out.append("%s    %s%s\n" % (indent, lines[-1], sep))
    out.append("%s//@end\n" % indent[:-4])
    return "".join(out)


class FnCtx:
    pass


def impl_names(toks, it):
    """(selfname, traitname|None) of an impl item"""
    s = rs.sig(toks[:it.body_lo])
    s = [k for k in s if k >= it.head_lo]
    # skip `unsafe`, `impl`, generics
    k = 0
    while toks[s[k]].text != "impl":
        k += 1
    k += 1
    if toks[s[k]].text == "<":
        depth = 0
        while True:
            t = toks[s[k]].text
            if t == "<":
                depth += 1
            elif t == ">":
                depth -= 1
                if depth == 0:
                    k += 1
                    break
            k += 1
    rest = s[k:]
    # split at `for` (depth 0) and `where`
    depth = 0
    forpos = None
    endpos = len(rest)
    for n, idx in enumerate(rest):
        t = toks[idx]
        if t.text == "<":
            depth += 1
        elif t.text == ">":
            depth -= 1
        elif t.kind == "ident" and t.text == "for" and depth == 0 and forpos is None:
            forpos = n
        elif t.kind == "ident" and t.text == "where" and depth == 0:
            endpos = n
            break

    def pathname(idxs):
        name = None
        depth = 0
        for idx in idxs:
            t = toks[idx]
            if t.text == "<":
                depth += 1
            elif t.text == ">":
                depth -= 1
            elif t.kind == "ident" and depth == 0 and t.text not in ("dyn", "mut", "const"):
                name = t.text
            elif t.text in ("&",) and depth == 0:
                name = "&"
        return name

    if forpos is None:
        return pathname(rest[:endpos]), None
    return pathname(rest[forpos + 1:endpos]), pathname(rest[:forpos])


def find_anchor(toks, lo, hi, anchor):
    """first position (token index range) in toks[lo:hi] whose significant tokens spell `anchor`"""
    want = [t.text for t in rs.tokenize(anchor) if t.kind not in ("ws", "comment", "doc")]
    sigs = [k for k in range(lo, hi) if toks[k].kind not in ("ws", "comment", "doc")]
    for a in range(len(sigs) - len(want) + 1):
        if all(toks[sigs[a + b]].text == want[b] for b in range(len(want))):
            return sigs[a], sigs[a + len(want) - 1]
    return None


def param_names(toks, it):
    """names of the parameters of a fn item (self for receivers, None for non-identifier patterns)"""
    sig_s = [k for k in range(it.head_lo, it.body_lo if it.body_lo else it.hi) if toks[k].kind not in ("ws", "comment", "doc")]
    n = 0
    while toks[sig_s[n]].text != "fn":
        n += 1
    n += 2
    if n < len(sig_s) and toks[sig_s[n]].text == "<":
        depth = 0
        while True:
            tt = toks[sig_s[n]].text
            depth += tt == "<"
            depth -= tt == ">"
            n += 1
            if depth == 0:
                break
    if n >= len(sig_s) or toks[sig_s[n]].text != "(":
        return []
    close = rs.match_close(toks, sig_s[n])
    inner = [k for k in sig_s if sig_s[n] < k < close]
    params, cur, depth = [], [], 0
    for k in inner:
        t = toks[k].text
        if t in ("(", "[", "{", "<"):
            depth += 1
        elif t in (")", "]", "}", ">"):
            depth -= 1
        if t == "," and depth == 0:
            params.append(cur)
            cur = []
        else:
            cur.append(k)
    if cur:
        params.append(cur)
    names = []
    for pr in params:
        texts = [toks[k].text for k in pr]
        if "self" in texts[:4] and ":" not in texts[:texts.index("self")]:
            names.append("self")
            continue
        ids = []
        for k in pr:
            if toks[k].text == ":":
                break
            if toks[k].kind == "ident" and toks[k].text not in ("mut", "ref"):
                ids.append(toks[k].text)
        names.append(ids[0] if len(ids) == 1 else None)
    return names


class Splicer:
    def __init__(self, repo, gen, probes=False, demote=()):
        self.repo, self.g, self.probes, self.demote = repo, gen, probes, set(demote)

    # ------------------------------------------------------------------ edits
    def begin(self, toks, path):
        self.toks, self.path = toks, path
        self.ins_before = {}   # tok index -> [text]
        self.ins_after = {}
        self.subs = {}         # lo -> (hi, newtext, rule)
        self.dele = set()

    def insert_before(self, k, text):
        self.ins_before.setdefault(k, []).append(text)

    def insert_after(self, k, text):
        self.ins_after.setdefault(k, []).insert(0, text)

    def sub(self, lo, hi, new, rule):
        for a in list(self.subs):
            b = self.subs[a][0]
            if not (hi <= a or lo >= b):
                if a <= lo and hi <= b:
                    return  # already covered by a larger substitution
                if lo <= a and b <= hi:
                    del self.subs[a]
                    continue
                raise Undecided("overlapping substitutions at %s:%d" % (self.path, self.toks[lo].start))
        self.subs[lo] = (hi, new, rule)
        self.g.hit(rule)

    def emit(self, lo, hi):
        toks, g = self.toks, self.g
        k = lo
        while k < hi:
            for text in self.ins_before.get(k, []):
                g.raw("/*<+*/" + text + "/*+>*/")
            if k in self.subs:
                h, new, rule = self.subs[k]
                orig = rs.text_of(toks, k, h)
                g.pieces.append(("/*<~%s~*/%s/*~>*/" % (esc(orig), new), (self.path, toks[k].start)))
                for kk in range(k, h):
                    for text in self.ins_after.get(kk, []):
                        if kk == h - 1:
                            g.raw("/*<+*/" + text + "/*+>*/")
                k = h
                continue
            if k not in self.dele:
                g.pieces.append((toks[k].text, (self.path, toks[k].start)))
            for text in self.ins_after.get(k, []):
                g.raw("/*<+*/" + text + "/*+>*/")
            k += 1

    def render(self, lo, hi):
        """source text of toks[lo:hi) with the substitutions / insertions already registered inside it applied WITHOUT markers
        (for a rule that re-renders an enclosing expression: the enclosing substitution keeps the original text)"""
        out, k = "", lo
        while k < hi:
            for text in self.ins_before.get(k, []):
                out += text
            if k in self.subs and self.subs[k][0] <= hi:
                h, new, rule = self.subs[k]
                out += new
                for text in self.ins_after.get(h - 1, []):
                    out += text
                k = h
                continue
            out += self.toks[k].text
            for text in self.ins_after.get(k, []):
                out += text
            k += 1
        return out

    def text21(self, lo, hi):
        """source text of toks[lo:hi) with the R21 substitutions inside it applied (for rules that re-render a statement)"""
        out, k = "", lo
        r21 = getattr(self, "r21", {})
        starts = {a: (b, t) for (a, b), t in r21.items() if lo <= a and b <= hi}
        while k < hi:
            if k in starts:
                b, t = starts[k]
                out += t
                k = b
            else:
                out += self.toks[k].text
                k += 1
        return out

    # ------------------------------------------------------------------ generic rules
    def attrs(self, lo, head_lo):
        """R2/R3 on the attribute prefix of an item; returns False if the item is cfg'd out"""
        toks = self.toks
        keep = True
        k = lo
        while k < head_lo:
            t = toks[k]
            if t.kind == "doc":
                self.dele.add(k)
                # swallow the newline/indent after a doc comment as well
                self.g.hit("R2")
            elif t.kind == "punct" and t.text == "#":
                j = k + 1
                while toks[j].text != "[":
                    j += 1
                e = rs.match_close(toks, j)
                text = rs.norm(toks, k, e + 1)
                if text.startswith("# [ cfg ("):
                    inner = [toks[x] for x in rs.sig(toks[:e]) if x > j + 1][1:]  # drop `cfg` `(`
                    inner = inner[:-1]  # closing paren
                    if not eval_cfg(inner):
                        keep = False
                    for x in range(k, e + 1):
                        self.dele.add(x)
                    self.g.hit("R3")
                elif any(re.match(p, text) for p in R2_ATTRS):
                    for x in range(k, e + 1):
                        self.dele.add(x)
                    self.g.hit("R2")
                k = e
            k += 1
        return keep

    def docs_inside(self, lo, hi):
        for k in range(lo, hi):
            if self.toks[k].kind == "doc":
                self.dele.add(k)

    def r1(self, lo, hi):
        toks = self.toks
        s = [k for k in range(lo, hi) if toks[k].kind not in ("ws", "comment", "doc")]
        for n in range(len(s) - 2):
            key = (toks[s[n]].text, toks[s[n + 1]].text, toks[s[n + 2]].text)
            if key in R1 and toks[s[n]].kind == "ident":
                # not part of a longer path like hashbrown::raw::X  (then rename the whole path)
                a = s[n]
                if n >= 2 and toks[s[n - 1]].text == "::" and toks[s[n - 2]].kind == "ident":
                    a = s[n - 2]
                self.sub(a, s[n + 2] + 1, R1[key], "R1")

    def r11(self, lo, hi, add=None):
        """erase visibility qualifiers in toks[lo:hi) to plain `pub`; `add`: 'item' = the item itself has none -> add,
        'struct' = also every named field"""
        toks = self.toks
        s = [k for k in range(lo, hi) if toks[k].kind not in ("ws", "comment", "doc")]
        n = 0
        while n < len(s):
            t = toks[s[n]]
            if t.kind == "ident" and t.text == "pub":
                if n + 1 < len(s) and toks[s[n + 1]].text == "(":
                    e = rs.match_close(toks, s[n + 1]) + 1
                    self.sub(s[n], e, "pub", "R11")
            n += 1
        if add and s and toks[s[0]].text != "pub":
            self.insert_before(s[0], "pub ")
            self.g.hit("R11")
        if add == "struct":
            # named fields: `{ a: T, b: U }` at depth 1
            brace = [k for k in s if toks[k].text == "{"]
            if brace:
                b = brace[0]
                e = rs.match_close(toks, b)
                inner = [k for k in s if b < k < e]
                depth = 0
                expect = True
                for n2, k in enumerate(inner):
                    tt = toks[k]
                    if tt.text in ("(", "[", "{", "<"):
                        depth += 1
                    elif tt.text in (")", "]", "}", ">"):
                        depth -= 1
                    elif tt.text == "," and depth == 0:
                        expect = True
                        continue
                    elif tt.text == "->":
                        pass
                    if expect and depth == 0 and tt.kind == "ident":
                        if tt.text != "pub":
                            self.insert_before(k, "pub ")
                            self.g.hit("R11")
                        expect = False

    # ------------------------------------------------------------------ function bodies
    def closures(self, lo, hi):
        """closures in toks[lo:hi): list of dicts(params_lo, params_hi (excl), body_lo, body_hi (excl), block)"""
        toks = self.toks
        s = [k for k in range(lo, hi) if toks[k].kind not in ("ws", "comment", "doc")]
        res = []
        for n, k in enumerate(s):
            t = toks[k]
            if t.kind != "punct" or t.text not in ("|", "||"):
                continue
            prev = toks[s[n - 1]] if n else None
            if prev is not None and not (prev.text in ("(", ",", "=", "{", ";", "=>", "move", "return", "&&", "[") ):
                continue
            if any(c["params_lo"] < k < c["params_hi"] for c in res):
                continue
            if t.text == "||":
                pe = k + 1
            else:
                depth = 0
                m = n + 1
                while True:
                    tt = toks[s[m]]
                    if tt.text in rs.OPEN:
                        depth += 1
                    elif tt.text in rs.CLOSE:
                        depth -= 1
                    elif tt.text == "|" and depth == 0:
                        break
                    m += 1
                pe = s[m] + 1
            # optional return type
            after = [x for x in s if x >= pe]
            b = 0
            if toks[after[0]].text == "->":
                b = 1
                while toks[after[b]].text != "{":
                    b += 1
            first = after[b]
            if toks[first].text == "{":
                be = rs.match_close(toks, first) + 1
                block = True
            else:
                depth = 0
                m = b
                while True:
                    tt = toks[after[m]]
                    if tt.text in rs.OPEN:
                        depth += 1
                    elif tt.text in rs.CLOSE:
                        if depth == 0:
                            break
                        depth -= 1
                    elif tt.text in (",", ";") and depth == 0:
                        break
                    m += 1
                be = after[m - 1] + 1
                block = False
            res.append(dict(params_lo=k, params_hi=pe, sig_hi=first, body_lo=first, body_hi=be, block=block))
        return res

    def loops(self, lo, hi):
        toks = self.toks
        s = [k for k in range(lo, hi) if toks[k].kind not in ("ws", "comment", "doc")]
        res = []
        for n, k in enumerate(s):
            t = toks[k]
            if t.kind == "ident" and t.text in ("for", "while", "loop"):
                if t.text == "for" and toks[s[n + 1]].text == "<":
                    continue
                m = n + 1
                in_idx = None
                depth = 0
                while True:
                    tt = toks[s[m]]
                    if tt.text in ("(", "["):
                        depth += 1
                    elif tt.text in (")", "]"):
                        depth -= 1
                    elif tt.text == "{" and depth == 0:
                        break
                    elif tt.kind == "ident" and tt.text == "in" and depth == 0 and in_idx is None:
                        in_idx = s[m]
                    m += 1
                res.append(dict(kw=t.text, at=k, in_idx=in_idx, brace=s[m]))
        return res

    def do_fn(self, it, key, spec, ctx_desc):
        toks, g = self.toks, self.g
        fs = spec
        if it.body_lo is None:
            return  # declaration only
        body_lo, body_hi = it.body_lo, it.body_hi
        if fs is not None and fs.external:
            self.sig_clauses(it, key, fs)
            return
        # R5 assert_eq!
        s = [k for k in range(body_lo, body_hi) if toks[k].kind not in ("ws", "comment", "doc")]
        for n, k in enumerate(s):
            if toks[k].kind == "ident" and toks[k].text in ("assert_eq", "debug_assert_eq", "assert_ne", "debug_assert_ne") and toks[s[n + 1]].text == "!":
                op = s[n + 2]
                cl = rs.match_close(toks, op)
                args, depth, cur = [], 0, op + 1
                for x in range(op + 1, cl):
                    tt = toks[x]
                    if tt.kind == "punct":
                        if tt.text in rs.OPEN:
                            depth += 1
                        elif tt.text in rs.CLOSE:
                            depth -= 1
                        elif tt.text == "," and depth == 0:
                            args.append((cur, x))
                            cur = x + 1
                if rs.norm(toks, cur, cl):
                    args.append((cur, cl))
                a = rs.text_of(toks, *args[0]).strip()
                b = rs.text_of(toks, *args[1]).strip()
                mac = "assert" if toks[k].text in ("assert_eq", "assert_ne") else "debug_assert"
                op_ = "==" if toks[k].text.endswith("_eq") else "!="
                self.sub(k, cl + 1, "%s!(%s %s %s)" % (mac, a, op_, b), "R5")
        cls = self.closures(body_lo + 1, body_hi)
        self.last_closure_count = len(cls)
        # R4 wildcard closure parameters
        specd = {}
        if fs:
            for c in fs.closures:
                specd[c.ordinal] = c
        # closure contracts are written for the n-th closure of the pinned text; when a closure has been removed or added the
        # ordinals shift, so the contracts are aligned with the closures actually present by parameter list (longest common
        # subsequence): a contract whose closure is gone is dropped, the others stay with their closures
        ptexts_ = [rs.norm(toks, c["params_lo"], c["params_hi"]) for c in cls]
        ords_ = sorted(specd)
        # a closure whose plain parameters were merely renamed keeps its contract: the contract follows the parameters by
        # position (same number of closures, same arity, identifiers only)
        if specd and len(cls) == max(ords_) == len(ords_):
            import copy as _copy
            for o_ in ords_:
                want_, have_ = rs.norm_text(specd[o_].params), ptexts_[o_ - 1]
                mw_ = re.match(r"^\| ([a-z_][a-z_0-9]*(?: , [a-z_][a-z_0-9]*)*) \|$", want_)
                mh_ = re.match(r"^\| ([a-z_][a-z_0-9]*(?: , [a-z_][a-z_0-9]*)*) \|$", have_)
                if want_ != have_ and mw_ and mh_ and len(mw_.group(1).split(" , ")) == len(mh_.group(1).split(" , ")):
                    ren_ = {a_: b_ for a_, b_ in zip(mw_.group(1).split(" , "), mh_.group(1).split(" , ")) if a_ != b_ and a_ != "_" and b_ != "_"}
                    if ren_ and not specd[o_].destructure:
                        cs_ = _copy.deepcopy(specd[o_])
                        def _sub(text_):
                            for a_, b_ in ren_.items():
                                text_ = re.sub(r"(?<![A-Za-z0-9_.])%s(?![A-Za-z0-9_])" % re.escape(a_), b_, text_)
                            return text_
                        cs_.params = "|" + ", ".join(mh_.group(1).split(" , ")) + "|"
                        cs_.header = _sub(cs_.header)
                        for cl_ in cs_.clauses:
                            cl_.expr = _sub(cl_.expr)
                        specd[o_] = cs_
                        g.meta.setdefault("param_renames", []).append({"fn": key, "closure": o_, "renamed": ren_})
        if specd and [rs.norm_text(specd[o].params) for o in ords_] != [ptexts_[o - 1] if o <= len(ptexts_) else None for o in ords_]:
            A_ = [rs.norm_text(specd[o].params) for o in ords_]
            L_ = [[0] * (len(ptexts_) + 1) for _ in range(len(A_) + 1)]
            for i_ in range(len(A_) - 1, -1, -1):
                for j_ in range(len(ptexts_) - 1, -1, -1):
                    L_[i_][j_] = L_[i_ + 1][j_ + 1] + 1 if A_[i_] == ptexts_[j_] else max(L_[i_ + 1][j_], L_[i_][j_ + 1])
            i_, j_, amap_ = 0, 0, {}
            while i_ < len(A_) and j_ < len(ptexts_):
                if A_[i_] == ptexts_[j_]:
                    amap_[j_ + 1] = specd[ords_[i_]]
                    i_ += 1
                    j_ += 1
                elif L_[i_ + 1][j_] >= L_[i_][j_ + 1]:
                    i_ += 1
                else:
                    j_ += 1
            unmatched_specs_ = [specd[o] for o in ords_ if specd[o] not in amap_.values()]
            unmatched_cls_ = [n_ for n_ in range(1, len(cls) + 1) if n_ not in amap_ and any(rs.norm_text(sp_.params).count(",") == ptexts_[n_ - 1].count(",") for sp_ in unmatched_specs_)]
            for sp_ in unmatched_specs_:
                # excused only if some closure without a contract is left that it might have belonged to (e.g. a renamed parameter)
                g.meta["skipped_anchors"].append({"fn": key, "kind": "closure", "ordinal": sp_.ordinal, "expected": sp_.params,
                                                  "found": ptexts_[unmatched_cls_[0] - 1] if unmatched_cls_ else None, "excuses": bool(unmatched_cls_)})
            specd = amap_
            specd_aligned_ = True
        else:
            specd_aligned_ = False
        for n, c in enumerate(cls, 1):
            ptext = rs.norm(toks, c["params_lo"], c["params_hi"])
            if n in specd:
                cs = specd[n]
                if "%s#%d" % (key, cs.ordinal) in getattr(self, "skip_closures", ()):
                    g.meta["skipped_anchors"].append({"fn": key, "kind": "closure", "ordinal": n, "expected": cs.params, "found": ptext, "forced": True})
                    cs = None
                elif rs.norm_text(cs.params) != ptext:
                    g.meta["skipped_anchors"].append({"fn": key, "kind": "closure", "ordinal": n,
                                                      "expected": cs.params, "found": ptext})
                    cs = None
                else:
                    header = cs.header
                    text = header + "\n" + clause_lines(cs.clauses, indent="                ")
                    # replace `|params| [-> T]` up to the body
                    hi_ = c["body_lo"]
                    # keep whitespace before the body out of the substitution
                    while toks[hi_ - 1].kind == "ws":
                        hi_ -= 1
                    let_ = ""
                    if cs.destructure:
                        # R19: `|PAT| BODY` == `|p| { let PAT = p; BODY }` (closure parameters are irrefutable patterns)
                        pat_ = rs.text_of(toks, c["params_lo"] + 1, c["params_hi"] - 1).strip()
                        let_ = " let %s = %s;" % (pat_, cs.destructure)
                        g.hit("R19")
                        g.meta["r13_r14"].append({"fn": key, "rule": "R19", "before": "|%s|" % pat_, "after": "|%s| {%s .. }" % (cs.destructure, let_)})
                    if c["block"]:
                        self.sub(c["params_lo"], hi_, text, "R8")
                        if let_:
                            self.insert_after(c["body_lo"], let_)
                    else:
                        self.sub(c["params_lo"], hi_, text + "{" + let_, "R8")
                        self.insert_after(c["body_hi"] - 1, "}")
                    continue
            if ptext in ("| _ |",):
                self.sub(c["params_lo"] + 1, c["params_lo"] + 2, "_p", "R4") if toks[c["params_lo"] + 1].text == "_" else None
        for n in specd:
            if n > len(cls) and not specd_aligned_:
                # the closure is gone altogether: there is no closure left whose unspecified result could be what a proof lacks
                g.meta["skipped_anchors"].append({"fn": key, "kind": "closure", "ordinal": n, "expected": specd[n].params, "found": None, "excuses": False})
        if fs is None:
            return
        # loops
        lps = self.loops(body_lo + 1, body_hi)
        r14 = "R14" in fs.rules
        # a `foreach` loop spec whose `.for_each(` call has become an ordinary loop (a behaviour-preserving rewrite)
        # follows the code: it is attached to that loop, with R14 for a non-range `for`
        n_fe = 0
        if "R16" in fs.rules:
            s__ = [k for k in range(body_lo, body_hi) if toks[k].kind not in ("ws", "comment", "doc")]
            n_fe = sum(1 for n in range(1, len(s__) - 2) if toks[s__[n]].text == "." and toks[s__[n + 1]].text == "for_each" and toks[s__[n + 2]].text == "(")
        foreach_as_loop = set()
        for ls in fs.loops:
            if ls.kw == "foreach" and ls.ordinal > n_fe and ls.ordinal - n_fe <= len(lps):
                lps[ls.ordinal - n_fe - 1]["spec"] = ls
                foreach_as_loop.add(id(ls))
                r14 = True
        for ls in fs.loops:
            if ls.kw in ("foreach", "all"):
                continue
            same = lps if ls.kw == "any" else [l for l in lps if l["kw"] == ls.kw]
            plain_ = [x for x in fs.loops if x.kw not in ("foreach", "all")]
            if ls.ordinal > len(same) and len(lps) == len(plain_) and ls.kw == "for" and \
                    re.match(r"^while let Some \( .* \) = [a-z_][a-z_0-9]* \. next \( \)$", rs.norm(toks, lps[plain_.index(ls)]["at"], lps[plain_.index(ls)]["brace"])):
                # the `for` loop is still there, written as `let mut it = E; while let Some(x) = it.next()` (which is what R14 makes
                # of it anyway): the contract follows it by position. Other keyword changes are not followed: a `loop` turned into
                # `while let` needs exit clauses its contract does not have (measured: that transfer produced a false alarm)
                same = lps
                ordinal_ = plain_.index(ls) + 1
            else:
                ordinal_ = ls.ordinal
            if ordinal_ > len(same):
                raise Undecided("loop anchor lost: %s %s#%d [demotable fn=%s]" % (key, ls.kw, ls.ordinal, key))
            l = same[ordinal_ - 1]
            l["spec"] = ls
        if any("exec_allows_no_decreases_clause" in a_ for a_ in fs.fnattr) and any(l.get("spec") is None for l in lps):
            # elsewhere Verus itself refuses a loop without `decreases` (=> auto-demotion => exit 2); where that refusal is
            # switched off, a loop the contract does not know would be checked against the invariant `true` and fail for
            # lack of an invariant, not for what the code does
            raise Undecided("a loop without a spliced invariant in %s [demotable fn=%s]" % (key, key))
        for l in lps:
            ls = l.get("spec")
            is_range = l["kw"] == "for" and any(toks[x].text in ("..", "..=") for x in range(l["in_idx"], l["brace"]))
            if l["kw"] == "for" and r14 and not is_range:
                pat = rs.text_of(toks, l["at"] + 1, l["in_idx"]).strip()
                e_lo = l["in_idx"] + 1
                expr = rs.text_of(toks, e_lo, l["brace"]).strip()
                before = rs.text_of(toks, l["at"], l["brace"])
                new = "let mut __it = %s; while let Some(%s) = __it.next() " % (expr, pat)
                self.sub(l["at"], l["brace"], new, "R14")
                g.meta["r13_r14"].append({"fn": key, "rule": "R14", "before": before.strip(), "after": new.strip()})
            elif ls is not None and ls.iter and l["kw"] == "for":
                self.insert_after(l["in_idx"], " %s:" % ls.iter)
                g.hit("R7")
            if ls is not None:
                cl_ = ls.clauses
                if l["kw"] == "while" and any("__it" in c_.expr for c_ in cl_):
                    hdr_ = rs.norm(toks, l["at"], l["brace"])
                    m_ = re.match(r"^while let Some \( .* \) = ([a-z_][a-z_0-9]*) \. next \( \)$", hdr_)
                    if m_ and m_.group(1) != "__it":
                        import copy as _copy
                        cl_ = _copy.deepcopy(cl_)
                        for c_ in cl_:
                            c_.expr = re.sub(r"(?<![A-Za-z0-9_.])__it(?![A-Za-z0-9_])", m_.group(1), c_.expr)
                        g.meta.setdefault("param_renames", []).append({"fn": key, "loop": ls.ordinal, "renamed": {"__it": m_.group(1)}})
                self.insert_before(l["brace"], "\n" + clause_lines(cl_, indent="                    ") + "                ")
        # R18: in the tail expression of the function, `RECV.map(|P| E)` -> `match RECV { Some(P) => Some(E), None => None }`
        #      and `RECV.or_else(|| E)` -> `match RECV { Some(__v) => Some(__v), None => E }` for closure LITERALS: libcore's
        #      definitions of Option::map / Option::or_else with the literal beta-reduced. Tail position only, so that a `?`
        #      inside the closure body (which left the closure with None, the value of the whole expression) now leaves the
        #      function with the same value. Nested occurrences in the closure bodies are rewritten the same way.
        if "R18" in fs.rules:
            def sig(lo, hi):
                return [k for k in range(lo, hi) if toks[k].kind not in ("ws", "comment", "doc")]

            def r18(lo, hi):
                """text of the expression toks[lo:hi) with the rule applied (or None if it does not apply)"""
                s_ = sig(lo, hi)
                if not s_:
                    return None
                # a block `{ stmts; tail }` with a single tail expression and no statements: rewrite the tail
                if toks[s_[0]].text == "{" and rs.match_close(toks, s_[0]) == s_[-1]:
                    inner = r18(s_[0] + 1, s_[-1])
                    return None if inner is None else "{ " + inner + " }"
                if toks[s_[-1]].text != ")":
                    return None
                # the last call `. name ( args )` at depth 0
                op = None
                depth = 0
                for k in reversed(s_):
                    t_ = toks[k].text
                    if toks[k].kind == "punct" and t_ in rs.CLOSE:
                        depth += 1
                    elif toks[k].kind == "punct" and t_ in rs.OPEN:
                        depth -= 1
                        if depth == 0:
                            op = k
                            break
                if op is None or toks[op].text != "(":
                    return None
                i_ = s_.index(op)
                if i_ < 2 or toks[s_[i_ - 2]].text != "." or toks[s_[i_ - 1]].text not in ("map", "or_else"):
                    return None
                meth = toks[s_[i_ - 1]].text
                dot = s_[i_ - 2]
                cl_ = [c for c in cls if op < c["params_lo"] and c["body_hi"] <= s_[-1] + 1]
                cl_ = [c for c in cl_ if not any(o is not c and o["params_lo"] < c["params_lo"] and c["body_hi"] <= o["body_hi"] for o in cl_)]
                if len(cl_) != 1 or sig(op + 1, cl_[0]["params_lo"]) or sig(cl_[0]["body_hi"], s_[-1]):
                    return None
                c_ = cl_[0]
                recv = r18(lo, dot) or rs.text_of(toks, lo, dot).strip()
                body = r18(c_["body_lo"], c_["body_hi"]) or rs.text_of(toks, c_["body_lo"], c_["body_hi"]).strip()
                params = rs.text_of(toks, c_["params_lo"], c_["params_hi"]).strip()
                if meth == "map":
                    if not (params.startswith("|") and params.endswith("|")) or params == "||":
                        return None
                    return "match %s { Some(%s) => Some(%s), None => None }" % (recv, params[1:-1].strip(), body)
                if params != "||":
                    return None
                return "match %s { Some(__v) => Some(__v), None => %s }" % (recv, body)

            s_all = sig(body_lo + 1, body_hi)
            # tail expression: after the last `;` at depth 0 of the body block
            depth, start = 0, body_lo + 1
            for k in s_all:
                t_ = toks[k]
                if t_.kind == "punct" and t_.text in rs.OPEN:
                    depth += 1
                elif t_.kind == "punct" and t_.text in rs.CLOSE:
                    depth -= 1
                elif t_.text == ";" and depth == 0:
                    start = k + 1
            tail = sig(start, body_hi)
            newt = r18(tail[0], tail[-1] + 1) if tail else None
            if newt is None:
                # the rule has nothing to rewrite (the code no longer has that shape): the function is verified as it stands
                g.meta["skipped_anchors"].append({"fn": key, "kind": "rule", "ordinal": 18, "expected": "map/or_else chain over closure literals in tail position", "found": None})
            else:
                before = rs.text_of(toks, tail[0], tail[-1] + 1)
                self.sub(tail[0], tail[-1] + 1, newt, "R18")
                g.meta["r13_r14"].append({"fn": key, "rule": "R18", "before": before, "after": newt})
        # R20: a tail expression `[A &&] RECV.all(|P| E)` (closure literal) ->
        #      `[if !(A) { return false; }] let mut __it = RECV; while let Some(P) = __it.next() { if !(E) { return false; } } true`
        #      libcore's provided Iterator::all is try_fold with a short-circuit on the first `false`, i.e. exactly this loop
        #      (`&&` does not evaluate its right operand when the left one is false). The loop carries `@loop all 1`.
        if "R20" in fs.rules:
            s_all = [k for k in range(body_lo + 1, body_hi) if toks[k].kind not in ("ws", "comment", "doc")]
            depth, start = 0, body_lo + 1
            for k in s_all:
                t_ = toks[k]
                if t_.kind == "punct" and t_.text in rs.OPEN:
                    depth += 1
                elif t_.kind == "punct" and t_.text in rs.CLOSE:
                    depth -= 1
                    if depth == 0 and t_.text == "}":
                        start = k + 1      # a statement block (`if .. { return false; }`) ends here
                elif t_.text == ";" and depth == 0:
                    start = k + 1
            tail = [k for k in range(start, body_hi) if toks[k].kind not in ("ws", "comment", "doc")]
            done = False
            if tail and toks[tail[-1]].text == ")":
                # last call at depth 0
                depth, op = 0, None
                for k in reversed(tail):
                    t_ = toks[k].text
                    if toks[k].kind == "punct" and t_ in rs.CLOSE:
                        depth += 1
                    elif toks[k].kind == "punct" and t_ in rs.OPEN:
                        depth -= 1
                        if depth == 0:
                            op = k
                            break
                i_ = tail.index(op) if op in tail else -1
                if i_ >= 2 and toks[op].text == "(" and toks[tail[i_ - 1]].text in ("all", "any") and toks[tail[i_ - 2]].text == ".":
                    meth20_ = toks[tail[i_ - 1]].text
                    dot = tail[i_ - 2]
                    cl_ = [c for c in cls if op < c["params_lo"] and c["body_hi"] <= tail[-1] + 1]
                    cl_ = [c for c in cl_ if not any(o is not c and o["params_lo"] < c["params_lo"] and c["body_hi"] <= o["body_hi"] for o in cl_)]
                    # split `A && RECV` at the last top-level `&&` before the receiver chain
                    depth, amp = 0, None
                    for k in tail[:i_ - 2]:
                        t_ = toks[k]
                        if t_.kind == "punct" and t_.text in rs.OPEN:
                            depth += 1
                        elif t_.kind == "punct" and t_.text in rs.CLOSE:
                            depth -= 1
                        elif t_.text == "&&" and depth == 0:
                            amp = k
                    if len(cl_) == 1:
                        c_ = cl_[0]
                        params = rs.text_of(toks, c_["params_lo"] + 1, c_["params_hi"] - 1).strip()
                        body = self.render(c_["body_lo"], c_["body_hi"]).strip()   # closure specs of inner closures included
                        recv_lo = amp + 1 if amp is not None else tail[0]
                        while toks[recv_lo].kind in ("ws", "comment", "doc"):
                            recv_lo += 1
                        neg_ = toks[recv_lo].text == "!"
                        if meth20_ == "any" and not neg_:
                            len_cl_ = 0   # a bare `X.any(..)` tail is a different function: not this rule
                            cl_ = []
                        recv = rs.text_of(toks, recv_lo + (1 if neg_ else 0), dot).strip()
                        guard = ""
                        if amp is not None:
                            guard = "if !(%s) { return false; } " % rs.text_of(toks, tail[0], amp).strip()
                        ls = [l_ for l_ in fs.loops if l_.kw == "all" and l_.ordinal == 1]
                        inv = ("\n" + clause_lines(ls[0].clauses, indent="                    ") + "                ") if ls else " "
                        if meth20_ == "all" and neg_:
                            cl_ = []      # `!X.all(..)` is not covered
                        test_ = "!(%s)" % body if meth20_ == "all" else "(%s)" % body   # `!X.any(p)`: false as soon as p holds (libcore: any = try_fold short-circuiting on the first true)
                        newt = "%slet mut __it = %s; while let Some(%s) = __it.next()%s{ if %s { return false; } } true" % (guard, recv, params, inv, test_)
                        before = rs.text_of(toks, tail[0], tail[-1] + 1)
                        if len(cl_) != 1:
                            raise Undecided("R20: unsupported shape in %s [demotable fn=%s]" % (key, key))
                        self.sub(tail[0], tail[-1] + 1, newt, "R20")
                        g.meta["r13_r14"].append({"fn": key, "rule": "R20", "before": before, "after": re.sub(r"\s+", " ", newt)})
                        done = True
            if not done:
                # the code no longer has that shape: nothing to rewrite, the function is verified as it stands (without the
                # loop spec, which has nothing to attach to); if it still uses an adapter Verus rejects, it is demoted
                still_ = bool(self.loops(body_lo + 1, body_hi)) or any(toks[k_].kind == "ident" and toks[k_].text in ("all", "any", "fold", "try_fold", "for_each", "find", "position") and toks[k_ - 1].text == "." for k_ in range(body_lo + 1, body_hi))
                g.meta["skipped_anchors"].append({"fn": key, "kind": "rule", "ordinal": 20, "expected": "tail expression `[A &&] X.all(|p| E)`", "found": None, "excuses": still_})
        # R16: `RECV.for_each([move] |PAT| { BODY });`  ->  `let mut __it = RECV; while let Some(PAT) = __it.next() { BODY }`
        #      (libcore's provided Iterator::for_each is fold((), ..), and fold is `while let Some(x) = self.next()`)
        # R17: `RECV.size_hint()` on a generic iterator -> `iter_size_hint(&RECV)` (trusted identity wrapper, result unconstrained)
        if "R16" in fs.rules or "R17" in fs.rules:
            s = [k for k in range(body_lo, body_hi) if toks[k].kind not in ("ws", "comment", "doc")]
            fe_n = 0
            for n in range(1, len(s) - 3):
                if toks[s[n]].text != "." or toks[s[n - 1]].kind != "ident":
                    continue
                recv, meth = s[n - 1], toks[s[n + 1]].text
                if toks[s[n - 2]].text in (".", "::"):
                    continue  # only a plain local as receiver
                if meth == "size_hint" and "R17" in fs.rules and toks[s[n + 2]].text == "(" and toks[s[n + 3]].text == ")":
                    before = rs.text_of(toks, recv, s[n + 3] + 1)
                    newt = "iter_size_hint(&%s)" % toks[recv].text
                    self.sub(recv, s[n + 3] + 1, newt, "R17")
                    g.meta["r13_r14"].append({"fn": key, "rule": "R17", "before": before, "after": newt})
                if meth == "for_each" and "R16" in fs.rules and toks[s[n + 2]].text == "(" and toks[s[n - 2]].text in (";", "{", "}"):
                    fe_n += 1
                    op = s[n + 2]
                    cl = rs.match_close(toks, op)
                    inner = [c for c in cls if op < c["params_lo"] and c["body_hi"] <= cl + 1]
                    after_cl = [x for x in s if x > cl]
                    if not inner or not inner[0]["block"] or toks[after_cl[0]].text != ";":
                        raise Undecided("R16: unsupported for_each shape in %s [demotable fn=%s]" % (key, key))
                    c = inner[0]
                    pat = rs.text_of(toks, c["params_lo"] + 1, c["params_hi"] - 1).strip()
                    ls = [l_ for l_ in fs.loops if l_.kw == "foreach" and l_.ordinal == fe_n]
                    inv = ("\n" + clause_lines(ls[0].clauses, indent="                    ") + "                ") if ls else " "
                    before = rs.text_of(toks, recv, c["body_lo"])
                    newt = "let mut __it = %s; while let Some(%s) = __it.next()%s" % (toks[recv].text, pat, inv)
                    self.sub(recv, c["body_lo"], newt, "R16")
                    self.sub(cl, after_cl[0] + 1, "", "R16")
                    g.meta["r13_r14"].append({"fn": key, "rule": "R16", "before": before.strip() + " .. });", "after": newt.strip() + " .. }"})
            for l_ in fs.loops:
                if l_.kw == "foreach" and l_.ordinal > fe_n and id(l_) not in foreach_as_loop:
                    raise Undecided("loop anchor lost: %s foreach#%d [demotable fn=%s]" % (key, l_.ordinal, key))
        # R23: a closure literal `|(k, _)| g(k)` that only forwards the key of a pair to a captured `FnMut` local `g` (not used
        #      afterwards) -> `key_adapter(g)`: Verus rejects closures that capture a mutable borrow; the trusted combinator
        #      (model/lawfulness.rs) has exactly that closure as its body and says its requires/ensures are g's on the key
        if fs.adapter == "key":
            done_ = False
            for c in cls:
                ptext_ = rs.norm(toks, c["params_lo"], c["params_hi"])
                m_ = re.match(r"^\| \( ([a-z_][a-z_0-9]*) , _ \) \|$", ptext_)
                btext_ = rs.norm(toks, c["body_lo"], c["body_hi"])
                m2_ = re.match(r"^([a-z_][a-z_0-9]*) \( ([a-z_][a-z_0-9]*) \)$", btext_)
                if m_ and m2_ and m2_.group(2) == m_.group(1):
                    before = rs.text_of(toks, c["params_lo"], c["body_hi"])
                    newt = "key_adapter(%s)" % m2_.group(1)
                    self.sub(c["params_lo"], c["body_hi"], newt, "R23")
                    g.meta["r13_r14"].append({"fn": key, "rule": "R23", "before": before, "after": newt})
                    done_ = True
            if not done_:
                raise Undecided("R23: closure `|(k, _)| g(k)` not found in %s [demotable fn=%s]" % (key, key))
        # R22 (constructor side): `<field>: PhantomData` -> `<field>: <ghost expression>` (the phantom borrow materialised)
        if fs.ghostinit:
            fld_, ex_ = fs.ghostinit
            s = [k for k in range(body_lo, body_hi) if toks[k].kind not in ("ws", "comment", "doc")]
            done_ = False
            for n in range(len(s) - 2):
                if toks[s[n]].text == fld_ and toks[s[n + 1]].text == ":" and toks[s[n + 2]].text == "PhantomData":
                    self.sub(s[n + 2], s[n + 2] + 1, ex_, "R22")
                    g.meta["r13_r14"].append({"fn": key, "rule": "R22", "before": "%s: PhantomData" % fld_, "after": "%s: %s" % (fld_, ex_)})
                    done_ = True
            if not done_:
                raise Undecided("R22: `%s: PhantomData` not found in %s [demotable fn=%s]" % (fld_, key, key))
        # R21: `RECV.as_ref()` / `RECV.as_mut()` on a bucket -> `bucket_ref(&RECV, &TBL)` / `bucket_mut(&RECV, &mut TBL)`
        #      (hb_ref / hb_mut for a raw hashbrown bucket). A bucket is a raw pointer into one table; the rule names that
        #      table (given per function in the .spec file) so that the dereference reads / writes the table's abstract
        #      state. That the bucket really designates an occupied slot of TBL is an obligation of the wrapper, not assumed.
        self.r21 = {}
        if fs.deref:
            kind_, tbl_ = fs.deref
            s = [k for k in range(body_lo, body_hi) if toks[k].kind not in ("ws", "comment", "doc")]
            for n in range(2, len(s) - 3):
                if not (toks[s[n]].text == "." and toks[s[n + 1]].text in ("as_ref", "as_mut")
                        and toks[s[n + 2]].text == "(" and toks[s[n + 3]].text == ")"):
                    continue
                # receiver: the postfix chain that ends just before the `.`
                m = n - 1
                while True:
                    tt = toks[s[m]]
                    if tt.text == ")":
                        op_ = rs.match_open(toks, s[m]) if hasattr(rs, "match_open") else None
                        if op_ is None:
                            depth_, x_ = 0, s[m]
                            while True:
                                if toks[x_].kind == "punct" and toks[x_].text in rs.CLOSE:
                                    depth_ += 1
                                elif toks[x_].kind == "punct" and toks[x_].text in rs.OPEN:
                                    depth_ -= 1
                                    if depth_ == 0:
                                        break
                                x_ -= 1
                            op_ = x_
                        m = s.index(op_) - 1          # the callee name before `(`
                        continue
                    if tt.kind == "ident" and m >= 1 and toks[s[m - 1]].text in (".", "::") :
                        m -= 2
                        continue
                    break
                if toks[s[m]].kind != "ident":
                    raise Undecided("R21: unsupported receiver in %s [demotable fn=%s]" % (key, key))
                recv_lo, hi_ = s[m], s[n + 3] + 1
                recv = rs.text_of(toks, recv_lo, s[n - 1] + 1).strip()
                mut_ = toks[s[n + 1]].text == "as_mut"
                if kind_ == "ghost":
                    if mut_:
                        raise Undecided("R21: no ghost form of as_mut in %s [demotable fn=%s]" % (key, key))
                    newt = "bucket_ref_g(&%s, %s)" % (recv, tbl_)
                else:
                    fnm_ = {"griddle": "bucket_", "hb": "hb_"}[kind_] + ("mut" if mut_ else "ref")
                    newt = "%s(&%s, &%s%s)" % (fnm_, recv, "mut " if mut_ else "", tbl_)
                before = rs.text_of(toks, recv_lo, hi_)
                self.r21[(recv_lo, hi_)] = newt
                self.sub(recv_lo, hi_, newt, "R21")
                g.meta["r13_r14"].append({"fn": key, "rule": "R21", "before": before, "after": newt})
            if not self.r21:
                g.meta["skipped_anchors"].append({"fn": key, "kind": "rule", "ordinal": 21, "expected": "a bucket dereference `.as_ref()` / `.as_mut()`", "found": None, "excuses": False})
        r13_before_ = sum(1 for x_ in g.meta["r13_r14"] if x_.get("fn") == key and x_.get("rule") == "R13")
        # R13
        if "R13" in fs.rules:
            s = [k for k in range(body_lo, body_hi) if toks[k].kind not in ("ws", "comment", "doc")]
            n = 0
            while n < len(s) - 12:
                tx = [toks[s[n + d]].text for d in range(12)]
                # let & mut ( ref A , ref mut B ) = E ;   |   let & mut ( ref mut A , ref mut B ) = E ;
                off = 3 if tx[2] == "mut" else 2
                if tx[0] == "let" and tx[1] == "&" and tx[off] == "(" and tx[off + 1] == "ref":
                    close = rs.match_close(toks, s[n + off])
                    inner = rs.norm(toks, s[n + off] + 1, close).split(" , ")
                    m = re.match(r"^ref (mut )?([a-z_0-9]+)$", inner[0])
                    m2 = re.match(r"^ref (mut )?([a-z_0-9]+)$", inner[1]) if len(inner) == 2 else None
                    if m and m2:
                        eq = [x for x in s if x > close][0]
                        assert toks[eq].text == "="
                        depth, x = 0, eq + 1
                        while not (toks[x].text == ";" and depth == 0):
                            if toks[x].kind == "punct" and toks[x].text in rs.OPEN:
                                depth += 1
                            elif toks[x].kind == "punct" and toks[x].text in rs.CLOSE:
                                depth -= 1
                            x += 1
                        expr = self.text21(eq + 1, x).strip()
                        before = rs.text_of(toks, s[n], x + 1)
                        new = "let __t = %s; let %s = &%s__t.0; let %s = &%s__t.1;" % (
                            expr, m.group(2), m.group(1) or "", m2.group(2), m2.group(1) or "")
                        self.sub(s[n], x + 1, new, "R13")
                        g.meta["r13_r14"].append({"fn": key, "rule": "R13", "before": before, "after": new})
                n += 1
        # R13 (match arms): `Some(&[mut] (P1, P2)) => E,` with Pi in {_, ref x, ref mut x}
        #   ->  `Some(__t) => { let x = &[mut] __t.i; ... E },`   (the Reference's binding-mode semantics)
        if "R13" in fs.rules:
            s = [k for k in range(body_lo, body_hi) if toks[k].kind not in ("ws", "comment", "doc")]
            n = 0
            while n < len(s) - 6:
                tx = [toks[s[n + d]].text for d in range(5)]
                if tx[0] == "Some" and tx[1] == "(" and tx[2] == "&":
                    off = 4 if tx[3] == "mut" else 3
                    if toks[s[n + off]].text == "(":
                        inner_close = rs.match_close(toks, s[n + off])
                        outer_close = rs.match_close(toks, s[n + 1])
                        parts = rs.norm(toks, s[n + off] + 1, inner_close).split(" , ")
                        ok = all(re.match(r"^(_|ref (mut )?[a-z_0-9]+)$", p_) for p_ in parts)
                        after = [x for x in s if x > outer_close]
                        if ok and after and toks[after[0]].text == "=>":
                            # arm expression: up to the `,` at depth 0 (or a block)
                            a0 = after[1]
                            depth, x = 0, a0
                            while True:
                                tt = toks[x]
                                if tt.kind == "punct":
                                    if tt.text in rs.OPEN:
                                        depth += 1
                                    elif tt.text in rs.CLOSE:
                                        if depth == 0:
                                            break
                                        depth -= 1
                                    elif tt.text == "," and depth == 0:
                                        break
                                x += 1
                            lets = ""
                            for i_, p_ in enumerate(parts):
                                m_ = re.match(r"^ref (mut )?([a-z_0-9]+)$", p_)
                                if m_:
                                    lets += "let %s = &%s__t.%d; " % (m_.group(2), m_.group(1) or "", i_)
                            before = rs.text_of(toks, s[n], x)
                            expr = self.text21(a0, x).rstrip()
                            new = "Some(__t) => { %s%s }" % (lets, expr)
                            self.sub(s[n], x, new, "R13")
                            g.meta["r13_r14"].append({"fn": key, "rule": "R13", "before": before, "after": new})
                n += 1
        if "R13" in fs.rules and sum(1 for x_ in g.meta["r13_r14"] if x_.get("fn") == key and x_.get("rule") == "R13") == r13_before_:
            # the `ref` pattern this function's contract was written around is gone: the code was restructured (typically into
            # a closure or an explicit field borrow); what the verifier can no longer prove there may be for want of that shape
            g.meta["skipped_anchors"].append({"fn": key, "kind": "rule", "ordinal": 13, "expected": "a `&(ref a, ref b)` pattern", "found": None})
        # ghost statements
        for gh in fs.ghosts:
            if gh.name in getattr(self, "skip_ghosts", ()):
                g.meta["skipped_anchors"].append({"fn": key, "kind": "ghost", "name": gh.name, "expected": gh.anchor, "found": None, "forced": True})
                continue
            tag_ = " //@ %s %s" % (gh.name, ",".join(gh.props))
            text_ = "".join("%s%s\n" % (l, tag_) for l in gh.text.rstrip("\n").split("\n"))
            if gh.where == "at-start":
                self.insert_after(body_lo, "\n" + text_)
                continue
            if gh.where in ("before-loop", "loop-start"):
                nth = int(gh.anchor or "1")
                if nth > len(lps):
                    if gh.mandatory:
                        raise Undecided("ghost loop anchor lost: %s loop %d" % (key, nth))
                    g.meta["skipped_anchors"].append({"fn": key, "kind": "ghost", "name": gh.name, "expected": "loop %d" % nth, "found": None})
                    continue
                l_ = lps[nth - 1]
                if gh.where == "before-loop":
                    self.insert_before(l_["at"], text_ + "                ")
                else:
                    self.insert_after(l_["brace"], "\n" + text_)
                continue
            pos = find_anchor(toks, body_lo + 1, body_hi, gh.anchor)
            if pos is None:
                if gh.mandatory:
                    raise Undecided("ghost anchor lost: %s %s" % (key, gh.anchor))
                g.meta["skipped_anchors"].append({"fn": key, "kind": "ghost", "name": gh.name, "expected": gh.anchor, "found": None})
                continue
            tag = " //@ %s %s" % (gh.name, ",".join(gh.props))
            text = "".join("%s%s\n" % (l, tag) for l in gh.text.rstrip("\n").split("\n"))
            if gh.where == "before-stmt":
                # walk back to the start of the statement that contains the anchor
                k, depth = pos[0] - 1, 0
                start = pos[0]
                while k > body_lo:
                    tt = toks[k]
                    if tt.kind == "punct":
                        if tt.text in rs.CLOSE:
                            depth += 1
                        elif tt.text in rs.OPEN:
                            if depth == 0:
                                break
                            depth -= 1
                        elif tt.text == ";" and depth == 0:
                            break
                    if tt.kind not in ("ws", "comment", "doc"):
                        start = k
                    k -= 1
                self.insert_before(start, text + "                ")
            elif gh.where == "before":
                self.insert_before(pos[0], text + "                ")
            else:
                self.insert_after(pos[1], "\n" + text)
        self.sig_clauses(it, key, fs)
        if self.probes and (fs.clauses or fs.loops) and "const fn" not in rs.norm(toks, it.head_lo, body_lo):
            # after the at-start hints (they invoke trusted axioms: an inconsistent axiom must make the probe verify)
            self.ins_after.setdefault(body_lo, []).append("\nproof { assert(false); } //@ probe.%s\n" % key.replace(" ", "_"))
            for l in lps:
                if l.get("spec") is not None:
                    self.insert_after(l["brace"], "\nproof { assert(false); } //@ probe.%s.%s%d\n" % (key.replace(" ", "_"), l["kw"], l["spec"].ordinal))

    def sig_clauses(self, it, key, fs):
        toks, g = self.toks, self.g
        body_lo = it.body_lo
        # signature: R6 + clauses
        sig_s = [k for k in range(it.head_lo, body_lo) if toks[k].kind not in ("ws", "comment", "doc")]
        has_ens = any(c.kind == "ensures" for c in fs.clauses)
        if has_ens:
            # parameter list = first '(' after the fn name (skipping generics)
            n = 0
            while toks[sig_s[n]].text != "fn":
                n += 1
            n += 2
            if toks[sig_s[n]].text == "<":
                depth = 0
                while True:
                    tt = toks[sig_s[n]].text
                    if tt == "<":
                        depth += 1
                    elif tt == ">":
                        depth -= 1
                        if depth == 0:
                            n += 1
                            break
                    elif tt == "->":
                        pass
                    n += 1
            assert toks[sig_s[n]].text == "(", (key, toks[sig_s[n]].text)
            pclose = rs.match_close(toks, sig_s[n])
            after = [x for x in sig_s if x > pclose]
            if after and toks[after[0]].text == "->":
                r_lo = after[1]
                r_hi = None
                for x in after[1:]:
                    if toks[x].kind == "ident" and toks[x].text == "where":
                        break
                    r_hi = x
                rt_ = rs.text_of(toks, r_lo, r_hi + 1)
                for nm_, df_ in getattr(self, "assoc", {}).items():   # R15: `Self::Name` of a trait impl turned inherent
                    rt_ = re.sub(r"\bSelf\s*::\s*%s\b(?!\s*::)" % nm_, df_, rt_)
                self.sub(r_lo, r_hi + 1, "(%s: %s)" % (fs.ret, rt_), "R6")
        text = ""
        for sgs in fs.sigspec:
            text += "        " + sgs + "\n"
        if fs.clauses:
            text += clause_lines(fs.clauses)
        if text:
            self.insert_before(body_lo, "\n" + text + "    ")


PINNED_PARAMS = {}


def rename_spec(fs, ren):
    """contracts name parameters as the pinned tree does; if a parameter was renamed, follow it (by position)"""
    import copy
    fs2 = copy.deepcopy(fs)
    fs2.used = fs.used

    def sub(text):
        for a, b in ren.items():
            text = re.sub(r"(?<![A-Za-z0-9_.])%s(?![A-Za-z0-9_])" % re.escape(a), b, text)
        return text
    for c in fs2.clauses:
        c.expr = sub(c.expr)
    for l in fs2.loops:
        for c in l.clauses:
            c.expr = sub(c.expr)
    for g_ in fs2.ghosts:
        g_.text = sub(g_.text)
        g_.anchor = sub(g_.anchor)
    for c in fs2.closures:
        for cl in c.clauses:
            cl.expr = sub(cl.expr)
    return fs2


def token_hash(toks, lo, hi, dele=()):
    h = hashlib.sha256()
    for k in range(lo, hi):
        t = toks[k]
        if t.kind in ("ws", "comment", "doc") or k in dele:
            continue
        h.update(t.text.encode() + b"\0")
    return h.hexdigest()[:16]


def process_file(sp, fspec, g):
    path = os.path.join(sp.repo, fspec.path)
    src = open(path).read()
    toks = rs.tokenize(src)
    sp.begin(toks, fspec.path)
    g.meta["files"][fspec.path] = hashlib.sha256(src.encode()).hexdigest()
    lines_at = [0]
    for m in re.finditer("\n", src):
        lines_at.append(m.end())

    def line_of(off):
        import bisect
        return bisect.bisect_right(lines_at, off)

    items = rs.split_items(toks, 0, len(toks))
    seen_keys = {}
    whole = fspec.mode == "whole"

    def keyfor(selfname, trait, name):
        if selfname is None:
            base = name
        elif trait:
            base = "%s as %s::%s" % (selfname, trait, name)
        else:
            base = "%s::%s" % (selfname, name)
        seen_keys[base] = seen_keys.get(base, 0) + 1
        return base if seen_keys[base] == 1 else "%s#%d" % (base, seen_keys[base])

    def dropped(it, why):
        g.meta["dropped_items"].append({"file": fspec.path, "line": line_of(toks[it.head_lo].start),
                                        "item": rs.norm(toks, it.head_lo, min(it.hi, it.head_lo + 12)), "why": why})

    def unextracted(it, key):
        # a function of this file that is neither verified nor assumed: recorded with its token hash so that a change to it
        # can be noticed (contracts/unverified_pins.json) although no obligation covers it
        g.meta.setdefault("unextracted", []).append({"file": fspec.path, "key": key, "tokhash": token_hash(toks, it.head_lo, it.hi),
                                                       "line": line_of(toks[it.head_lo].start)})

    def emit_fn(it, key, fs, in_trait=False):
        if fs is not None:
            fs.used = True
        if key in sp.demote:
            if fs is None:
                fs = specfile.Fn(key)
            fs.external = "auto-demoted: the verifier rejected a construct inside this function"
        if fs is not None:
            fs.used = True
        start_line = line_of(toks[it.head_lo].start)
        end_line = line_of(toks[it.hi - 1].start)
        ext = fs.external if fs else None
        g.raw("\n//@fn %s %s:%d-%d%s\n" % (key, fspec.path, start_line, end_line, " external" if ext else ""))
        if fs and fs.stake:
            g.raw("//@stake %s\n" % ",".join(fs.stake))
        if ext:
            g.raw("#[verifier::external_body]\n")
            g.meta["external"].append({"fn": key, "why": ext})
        if fs:
            for a in fs.fnattr:
                g.raw(a + "\n")
        actual = param_names(toks, it)
        g.meta.setdefault("params", {})["%s|%s" % (fspec.path, key)] = actual
        pinned = PINNED_PARAMS.get("%s|%s" % (fspec.path, key))
        if fs is not None and pinned and len(pinned) == len(actual) and pinned != actual:
            ren = {a: b for a, b in zip(pinned, actual) if a and b and a != b and a != "self"}
            if ren:
                fs = rename_spec(fs, ren)
                g.meta.setdefault("param_renames", []).append({"fn": key, "renamed": ren})
        sp.r11(it.head_lo, it.body_lo if it.body_lo else it.hi, add=None if in_trait else 'item')
        sp.r1(it.head_lo, it.hi)
        sp.docs_inside(it.head_lo, it.hi)
        sp.last_closure_count = 0
        sp.do_fn(it, key, fs, None)
        sp.emit(it.lo, it.hi)
        g.raw("\n//@endfn\n")
        g.meta["functions"].append({"key": key, "file": fspec.path, "src_lines": [start_line, end_line],
                                    "tokhash": token_hash(toks, it.head_lo, it.hi),
                                    "clauses": (len(fs.clauses) + sum(len(l.clauses) for l in fs.loops) +
                                                sum(len(c.clauses) for c in fs.closures) + len(fs.ghosts)) if fs else 0,
                                    "contract": bool(fs and (fs.clauses or fs.loops or fs.closures or fs.ghosts)),
                                    "external": bool(ext), "stake": list(fs.stake) if fs else [],
                                    "closures": getattr(sp, "last_closure_count", 0)})

    def wanted_keep(it):
        head = rs.norm(toks, it.head_lo, it.body_lo if it.body_lo else it.hi)
        for kind, text in fspec.keep:
            if kind == it.kind and (it.name == text or (it.name is None and rs.norm_text(text) in head)):
                return True
        return False

    for it in items:
        if not sp.attrs(it.lo, it.head_lo):
            dropped(it, "cfg resolved to false (R3)")
            continue
        head = rs.norm(toks, it.head_lo, it.body_lo if it.body_lo else it.hi)
        if any(rs.norm_text(t) in head for t, _ in fspec.dropitems):
            why = [r for t, r in fspec.dropitems if rs.norm_text(t) in head][0]
            dropped(it, why)
            continue
        if it.kind == "use" or it.kind == "mod" or it.kind == "macro_rules" or it.kind == "extern":
            if whole:
                dropped(it, "import / module declaration (the generated file has its own)")
            continue
        if it.kind == "fn":
            key = keyfor(None, None, it.name)
            fs = fspec.fns.get(key)
            if whole or fs is not None:
                emit_fn(it, key, fs)
            else:
                unextracted(it, key)
            continue
        if it.kind == "impl":
            selfname, trait = impl_names(toks, it)
            inner = rs.split_items(toks, it.body_lo + 1, it.body_hi)
            chosen = []
            for sub in inner:
                if sub.kind == "fn":
                    key = keyfor(selfname, trait, sub.name)
                    fs = fspec.fns.get(key)
                    if not sp.attrs(sub.lo, sub.head_lo):
                        dropped(sub, "cfg resolved to false (R3)")
                        continue
                    if whole or fs is not None:
                        chosen.append((sub, key, fs))
                    else:
                        unextracted(sub, key)
                else:
                    sp.attrs(sub.lo, sub.head_lo)
                    chosen.append((sub, None, None))
            if trait in ("Iterator", "ExactSizeIterator", "DoubleEndedIterator"):
                # a method of an iterator impl that has no contract (e.g. a new override of a provided method such as
                # `fold`, `count`, `nth`) changes what the iterator yields without any clause noticing: recorded, and
                # the properties about iteration become UNDECIDED (tools/check.py)
                keys_ = {}
                seen_tmp = dict(seen_keys)
                specd_, unspecd_ = [], []
                for sub in inner:
                    if sub.kind == "fn":
                        base_ = "%s as %s::%s" % (selfname, trait, sub.name)
                        (specd_ if any(k_ == base_ or k_.startswith(base_ + "#") for k_ in fspec.fns) else unspecd_).append(base_)
                if specd_ and unspecd_:
                    for u_ in unspecd_:
                        g.meta.setdefault("unspecified_iterator_methods", []).append({"file": fspec.path, "fn": u_})
            if not whole and not any(k for _, k, _ in chosen):
                continue
            if not whole and trait is None:
                chosen = [c for c in chosen if c[1]]
            # header
            sp.r1(it.head_lo, it.body_lo)
            r15 = trait is not None and any(rs.norm_text(t) in head for t in fspec.inherent)
            if r15:
                # R15: drop `Trait for` from the header: the methods are verified as inherent methods with the same bodies
                hs = [k for k in range(it.head_lo, it.body_lo) if toks[k].kind not in ("ws", "comment", "doc")]
                depth, k0, k1 = 0, None, None
                n = 0
                while toks[hs[n]].text != "impl":
                    n += 1
                n += 1
                if toks[hs[n]].text == "<":
                    while True:
                        tt = toks[hs[n]].text
                        depth += tt == "<"
                        depth -= tt == ">"
                        n += 1
                        if depth == 0:
                            break
                k0 = hs[n]
                while not (toks[hs[n]].kind == "ident" and toks[hs[n]].text == "for" and depth == 0):
                    depth += toks[hs[n]].text == "<"
                    depth -= toks[hs[n]].text == ">"
                    n += 1
                k1 = hs[n + 1]
                sp.sub(k0, k1, "", "R15")
                # the impl's associated types go with the trait: `Self::Name` in the kept methods is replaced by its definition
                assoc = {}
                for sub in inner:
                    if sub.kind == "type" and sub.name:
                        assoc[sub.name] = rs.text_of(toks, sub.head_lo, sub.hi).split("=", 1)[1].strip().rstrip(";").strip()
                chosen = [c for c in chosen if c[1]]
                sp.assoc = assoc
                for sub, key, fs in chosen:
                    sg = [k for k in range(sub.lo, sub.hi) if toks[k].kind not in ("ws", "comment", "doc")]
                    for n_ in range(len(sg) - 2):
                        if toks[sg[n_]].text == "Self" and toks[sg[n_ + 1]].text == "::" and toks[sg[n_ + 2]].text in assoc \
                                and (n_ + 3 >= len(sg) or toks[sg[n_ + 3]].text != "::"):
                            sp.sub(sg[n_], sg[n_ + 2] + 1, assoc[toks[sg[n_ + 2]].text], "R15")
            if not r15:
                sp.assoc = {}
            sp.emit(it.lo, it.body_lo + 1)
            for sub, key, fs in chosen:
                if key:
                    emit_fn(sub, key, fs, in_trait=trait is not None and not r15)
                else:
                    sp.r1(sub.head_lo, sub.hi)
                    sp.r11(sub.head_lo, sub.hi)
                    g.raw("\n    ")
                    sp.emit(sub.lo, sub.hi)
            g.raw("\n}\n")
            if trait == "Iterator" and not r15:
                # R12: opt the user iterator out of vstd's prophetic iterator protocol
                def r1text(x):
                    for (a, b, c), v in R1.items():
                        x = re.sub(r"\b%s\s*::\s*%s\b" % (a, c), v, x)
                    return x
                header = r1text(rs.text_of(toks, it.head_lo, it.body_lo))
                header = re.sub(r"\bIterator\s+for\b", "vstd::std_specs::iter::IteratorSpecImpl for", header, count=1)
                item_ty = None
                for sub in inner:
                    if sub.kind == "type" and sub.name == "Item":
                        item_ty = r1text(rs.text_of(toks, sub.head_lo, sub.hi)).split("=", 1)[1].strip().rstrip(";").strip()
                if item_ty is None:
                    raise Undecided("Iterator impl without `type Item` at %s" % head)
                g.raw("/*<+*/\n%s{\n    open spec fn obeys_prophetic_iter_laws(&self) -> bool { false }\n"
                      "    uninterp spec fn remaining(&self) -> Seq<%s>;\n"
                      "    open spec fn will_return_none(&self) -> bool { false }\n"
                      "    open spec fn decrease(&self) -> Option<nat> { None }\n"
                      "    open spec fn peek(&self, i: int) -> Option<%s> { None }\n}\n/*+>*/\n" % (header, item_ty, item_ty))
                g.hit("R12")
            continue
        # struct / enum / const / type / static / trait
        if whole or wanted_keep(it):
            for st_, fld_, ty_ in fspec.ghostfields:
                if it.kind == "struct" and it.name == st_:
                    # R22 (declaration side): the PhantomData field that stands for the iterator's borrow of the map gets a ghost type
                    ss_ = [k for k in range(it.head_lo, it.hi) if toks[k].kind not in ("ws", "comment", "doc")]
                    hit_ = False
                    for n_ in range(len(ss_) - 2):
                        if toks[ss_[n_]].text == fld_ and toks[ss_[n_ + 1]].text == ":" and toks[ss_[n_ + 2]].text == "PhantomData":
                            depth_, x_ = 0, n_ + 2
                            while True:
                                tt_ = toks[ss_[x_]].text
                                if tt_ in ("<", "(", "["):
                                    depth_ += 1
                                elif tt_ in (">", ")", "]"):
                                    depth_ -= 1
                                elif tt_ in (",", "}") and depth_ <= 0:
                                    break
                                x_ += 1
                            sp.sub(ss_[n_ + 2], ss_[x_ - 1] + 1, ty_, "R22")
                            hit_ = True
                            break
                    if not hit_:
                        raise Undecided("R22: field %s: PhantomData<..> not found in struct %s" % (fld_, st_))
            sp.r1(it.head_lo, it.hi)
            sp.r11(it.head_lo, it.hi, add='struct' if it.kind == 'struct' else 'item')
            sp.docs_inside(it.head_lo, it.hi)
            g.raw("\n")
            sp.emit(it.lo, it.hi)
            g.raw("\n")
    for key, fs in fspec.fns.items():
        if not fs.used:
            raise Undecided("function anchor lost: %s in %s" % (key, fspec.path))


def main():
    import argparse
    ap = argparse.ArgumentParser()
    ap.add_argument("--repo", default="/repo")
    ap.add_argument("--verif", default=os.path.dirname(os.path.dirname(os.path.abspath(__file__))))
    ap.add_argument("--out", default=None)
    ap.add_argument("--specs", nargs="*", default=None)
    ap.add_argument("--demote", action="append", default=[])
    ap.add_argument("--record-params", action="store_true", help="write contracts/params.json from the current tree (done once on the pinned tree)")
    ap.add_argument("--skip-closure", action="append", default=[], help="FN#ordinal: leave this closure contract out (tools/hintmap.py)")
    ap.add_argument("--skip-ghost", action="append", default=[], help="leave this proof hint out (tools/hintmap.py: which clauses does a hint serve?)")
    ap.add_argument("--probes", action="store_true", help="vacuity run: assert(false) at the start of every contracted fn and loop body")
    a = ap.parse_args()
    out = a.out or os.path.join(a.verif, "gen")
    os.makedirs(out, exist_ok=True)
    g = Gen(a.repo)
    pp = os.path.join(a.verif, "contracts", "params.json")
    if os.path.exists(pp) and not a.record_params:
        PINNED_PARAMS.update(json.load(open(pp)))
    sp = Splicer(a.repo, g, probes=a.probes, demote=a.demote)
    sp.skip_ghosts = set(a.skip_ghost)
    sp.skip_closures = set(a.skip_closure)
    g.raw("// GENERATED by tools/splice.py from %s -- do not edit\n" % a.repo)
    g.raw("#![allow(unused_imports, dead_code, unused_variables, unused_mut, unused_unsafe, unreachable_code, non_snake_case)]\n")
    g.raw("use vstd::prelude::*;\nuse vstd::multiset::Multiset;\nuse core::mem;\nuse core::iter::FusedIterator;\n"
          "use core::hash::{BuildHasher, Hash};\nuse core::borrow::Borrow;\nuse core::marker::PhantomData;\nuse vstd::std_specs::cmp::PartialEqSpec;\n")
    g.raw("\n//@section model\n")
    g.raw(open(os.path.join(a.verif, "model", "hashbrown_0_14_5.rs")).read())
    g.raw(open(os.path.join(a.verif, "model", "lawfulness.rs")).read())
    g.raw("\n//@section prelude\n")
    g.raw(open(os.path.join(a.verif, "contracts", "prelude.rs")).read())
    g.raw("\n//@section code\nuse raw::*;\nuse map::*;\nuse set::*;\nverus! {\n")
    specs = a.specs or [os.path.join(a.verif, "contracts", f) for f in ("raw.spec", "map.spec", "set.spec")]
    mods_done = []
    try:
        for spath in specs:
            if not os.path.exists(spath):
                continue
            for fspec in specfile.parse(spath):
                modname = {"src/raw/mod.rs": "raw", "src/map.rs": "map", "src/set.rs": "set"}[fspec.path]
                mods_done.append(modname)
                g.raw("\npub mod %s {\nuse super::*;\n" % modname)
                process_file(sp, fspec, g)
                g.raw("\n} // mod %s\n" % modname)
        for m in ("raw", "map", "set"):
            if m not in mods_done:
                g.raw("\npub mod %s { }\n" % m)
    except Undecided as e:
        print("UNDECIDED: %s" % e)
        json.dump({"undecided": str(e)}, open(os.path.join(out, "meta.json"), "w"))
        sys.exit(2)
    g.raw("\n} // verus!\n")
    prov = os.path.join(a.verif, "contracts", "provided.rs")
    if os.path.exists(prov):
        g.raw("\n//@section provided\n")
        g.raw(open(prov).read())
    lem = os.path.join(a.verif, "contracts", "lemmas.rs")
    if os.path.exists(lem):
        g.raw("\n//@section lemmas\n")
        g.raw(open(lem).read())
    g.raw("\nfn main() {}\n")
    text, linemap = g.render()
    open(os.path.join(out, "griddle_verus.rs"), "w").write(text)
    g.meta["linemap"] = {str(k): [v[0], v[1]] for k, v in linemap.items()}
    json.dump(g.meta, open(os.path.join(out, "meta.json"), "w"), indent=1)
    if a.record_params:
        json.dump(g.meta.get("params", {}), open(pp, "w"), indent=0, sort_keys=True)
    print("generated %d lines, %d functions (%d under contract, %d external)" % (
        text.count("\n"), len(g.meta["functions"]), sum(1 for f in g.meta["functions"] if f["contract"]),
        len(g.meta["external"])))


if __name__ == "__main__":
    main()
