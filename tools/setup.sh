#!/bin/sh
# One-time, offline: build the model conformance tests and warm the Kani build cache (both under /verif/.cache).
set -e
cd "$(dirname "$0")/.."
export CARGO_NET_OFFLINE=true
mkdir -p .cache
echo "[setup] verus: $(verus --version 2>&1 | head -1)"
echo "[setup] building model conformance tests"
(cd model/conformance && cargo build --offline --target-dir ../../.cache/conformance-target 2>&1 | tail -2)
./.cache/conformance-target/debug/hashbrown-model-conformance 1 200 | cut -c1-120
echo "[setup] warming the Kani build of the harness crate (codegen only)"
(cd kani && RUSTFLAGS="--cfg miri" cargo kani --only-codegen --target-dir ../.cache/kani-target 2>&1 | tail -2) || echo "[setup] kani warm-up failed (thorough tier will retry)"
echo "[setup] done"
