"""Parser for contracts/*.spec.

Grammar (line oriented; '#' starts a comment line; indentation continues a clause):

  @file <path relative to /repo> whole|listed
  @keep struct|impl|fn|const <name-or-header-substring>     (listed mode: copy this item verbatim)
  @dropitem <header substring> -- reason                     (whole mode: leave this item out)
  @ghostfield <Struct> <field> <type>                        R22: the field (a PhantomData that stands for a borrow) gets this ghost type
  @inherent <impl header substring>                          R15: emit this trait impl as an inherent impl (same bodies), so that
                                                             its methods can carry `requires`; associated types are dropped
  @fn <Key>                                  Key = Self::name | Self as Trait::name | name  [#ordinal]
    ret <ident>                              name for the return value (default r)
    external -- reason                       R10: keep the text, #[verifier::external_body]
    rule R13 | rule R14                      statement desugarings applied in this function
    adapter key                              R23: the closure literal `|(k, _)| g(k)` (g a local FnMut) becomes `key_adapter(g)`
    ghostinit <field> <expr>                 R22: `<field>: PhantomData` in this function's struct literal becomes `<field>: <expr>`
    deref griddle|hb|ghost <table place expr>      R21: every `RECV.as_ref()` / `RECV.as_mut()` of this function (RECV a bucket) becomes
                                             `bucket_ref(&RECV, &TBL)` / `bucket_mut(&RECV, &mut TBL)` (`hb_ref`/`hb_mut` for a raw
                                             hashbrown bucket): the table the bucket is dereferenced in is made explicit
    stake P..                                properties that depend on this function's body although no clause can say so:
                                             if the function leaves the verifier's subset they become UNDECIDED
    fnattr <text>                            extra attribute text placed before the fn
    sigspec <text>                           raw text placed after the signature (e.g. opens_invariants none no_unwind)
    requires|ensures|decreases NAME [P..]: <expr>
  @loop <for|while|loop> <ordinal> [iter=<ghost iterator name>]
    invariant|ensures|decreases NAME [P..]: <expr>
  @ghost NAME [P..] before|after|before-stmt `<anchor text>` [mandatory]   |   at-start ``   |   before-loop `<ordinal>`   |   loop-start `<ordinal>`
    <indented verus text>
  @closure <ordinal> `<|params|>`
    header: <typed closure header, e.g. |b: HbBucket<T>| -> (o: Bucket<T>)>
    destructure: <name>     (R19) the closure's parameter is a pattern P: the header names a plain parameter <name> and `let P = <name>;` opens the body
    requires|ensures NAME [P..]: <expr>
"""
import re
from collections import OrderedDict


class Clause:
    def __init__(self, kind, name, props, expr, line):
        self.kind, self.name, self.props, self.expr, self.line = kind, name, props, expr, line


class Loop:
    def __init__(self, kw, ordinal, it):
        self.kw, self.ordinal, self.iter, self.clauses = kw, ordinal, it, []


class Ghost:
    def __init__(self, name, props, where, anchor, mandatory):
        self.name, self.props, self.where, self.anchor, self.mandatory = name, props, where, anchor, mandatory
        self.text = ""


class Closure:
    def __init__(self, ordinal, params):
        self.ordinal, self.params, self.header, self.clauses = ordinal, params, None, []
        self.destructure = None


class Fn:
    def __init__(self, key):
        self.key = key
        self.ret = "r"
        self.external = None
        self.rules = []
        self.deref = None    # R21: (kind, table place expression)
        self.ghostinit = None  # R22: (field, expression)
        self.adapter = None    # R23
        self.stake = []
        self.fnattr = []
        self.sigspec = []
        self.clauses = []
        self.loops = []
        self.ghosts = []
        self.closures = []
        self.used = False


class FileSpec:
    def __init__(self, path, mode):
        self.path, self.mode = path, mode
        self.keep = []       # (kind, text)
        self.dropitems = []  # (text, reason)
        self.inherent = []   # R15: trait impls (header substring) emitted as inherent impls
        self.ghostfields = []  # R22: (struct, field, type)
        self.fns = OrderedDict()


CL = re.compile(r"^(requires|ensures|decreases|invariant)\s+([A-Za-z0-9_.#]+)\s+\[([A-Za-z0-9 ,]*)\]\s*:\s*(.*)$")


def parse(path):
    files = []
    cur_file = cur_fn = cur_target = None  # cur_target: Fn | Loop | Closure | Ghost
    last_clause = None
    base_indent = 0
    lines = open(path).read().split("\n")
    for ln, raw in enumerate(lines, 1):
        if not raw.strip() or raw.lstrip().startswith("#"):
            continue
        indent = len(raw) - len(raw.lstrip())
        s = raw.strip()

        def err(msg):
            raise SyntaxError("%s:%d: %s: %s" % (path, ln, msg, raw))

        if s.startswith("@file "):
            _, p, mode = s.split()
            cur_file = FileSpec(p, mode)
            files.append(cur_file)
            cur_fn = cur_target = last_clause = None
        elif s.startswith("@keep "):
            _, kind, rest = s.split(None, 2)
            cur_file.keep.append((kind, rest))
        elif s.startswith("@ghostfield "):
            _, st_, fld_, ty_ = s.split(None, 3)
            cur_file.ghostfields.append((st_, fld_, ty_.strip()))
        elif s.startswith("@inherent "):
            cur_file.inherent.append(s[len("@inherent "):].strip())
        elif s.startswith("@dropitem "):
            rest = s[len("@dropitem "):]
            text, _, reason = rest.partition(" -- ")
            cur_file.dropitems.append((text.strip(), reason.strip()))
        elif s.startswith("@fn "):
            key = s[4:].strip()
            if key in cur_file.fns:
                err("duplicate @fn")
            cur_fn = Fn(key)
            cur_file.fns[key] = cur_fn
            cur_target = cur_fn
            last_clause = None
        elif s.startswith("@loop "):
            parts = s.split()
            it = None
            for p in parts[3:]:
                if p.startswith("iter="):
                    it = p[5:]
            lp = Loop(parts[1], int(parts[2]), it)
            cur_fn.loops.append(lp)
            cur_target = lp
            last_clause = None
        elif s.startswith("@ghost "):
            m = re.match(r"@ghost\s+([A-Za-z0-9_.#]+)\s+\[([A-Za-z0-9 ,]*)\]\s+(before|after|before-stmt|at-start|before-loop|loop-start)\s+`(.*)`\s*(mandatory)?$", s)
            if not m:
                err("bad @ghost")
            g = Ghost(m.group(1), m.group(2).replace(",", " ").split(), m.group(3), m.group(4), bool(m.group(5)))
            cur_fn.ghosts.append(g)
            cur_target = g
            last_clause = None
        elif s.startswith("@closure "):
            m = re.match(r"@closure\s+(\d+)\s+`(.*)`$", s)
            if not m:
                err("bad @closure")
            c = Closure(int(m.group(1)), m.group(2))
            cur_fn.closures.append(c)
            cur_target = c
            last_clause = None
        elif s.startswith("@"):
            err("unknown directive")
        elif isinstance(cur_target, Ghost):
            cur_target.text += raw.strip() + "\n"
        else:
            m = CL.match(s)
            if m:
                c = Clause(m.group(1), m.group(2), m.group(3).replace(",", " ").split(), m.group(4).strip(), ln)
                cur_target.clauses.append(c)
                last_clause = c
                base_indent = indent
            elif s.startswith("header:") and isinstance(cur_target, Closure):
                cur_target.header = s[len("header:"):].strip()
                last_clause = None
            elif s.startswith("destructure:") and isinstance(cur_target, Closure):
                # R19: the closure's pattern parameter becomes a plain parameter (named in `header`) and this `let`
                cur_target.destructure = s[len("destructure:"):].strip()
                last_clause = None
            elif isinstance(cur_target, Fn) and s.startswith("ret "):
                cur_target.ret = s.split()[1]
            elif isinstance(cur_target, Fn) and s.startswith("external"):
                cur_target.external = s.partition("--")[2].strip() or "outside the verifier's subset"
            elif isinstance(cur_target, Fn) and s.startswith("stake "):
                cur_target.stake += s.split()[1:]
            elif isinstance(cur_target, Fn) and s.startswith("adapter "):
                cur_target.adapter = s.split()[1]
            elif isinstance(cur_target, Fn) and s.startswith("ghostinit "):
                _, fld_, ex_ = s.split(None, 2)
                cur_target.ghostinit = (fld_, ex_.strip())
            elif isinstance(cur_target, Fn) and s.startswith("deref "):
                _, kind_, tbl_ = s.split(None, 2)
                if kind_ not in ("griddle", "hb", "ghost"):
                    err("deref griddle|hb|ghost <table>")
                cur_target.deref = (kind_, tbl_.strip())
            elif isinstance(cur_target, Fn) and s.startswith("rule "):
                cur_target.rules.append(s.split()[1])
            elif isinstance(cur_target, Fn) and s.startswith("fnattr "):
                cur_target.fnattr.append(s[len("fnattr "):])
            elif isinstance(cur_target, Fn) and s.startswith("sigspec "):
                cur_target.sigspec.append(s[len("sigspec "):])
            elif last_clause is not None and indent > base_indent:
                last_clause.expr += "\n" + s
            else:
                err("cannot parse")
    return files
