#!/usr/bin/env python3
"""For every optional, text-anchored proof hint: which clauses fail on the pinned tree when the hint is left out?
Writes contracts/hint_serves.json {hint name: [clause names]}. tools/pipeline.py uses it to decide whether a failed
obligation in a function that LOST that hint's anchor may be failing for want of the hint (=> UNDECIDED) or not (=> reported).
Run once on the unchanged tree whenever hints or contracts change:  python3 tools/hintmap.py"""
import os, sys, json, subprocess, tempfile, shutil, re
HERE = os.path.dirname(os.path.abspath(__file__)); VERIF = os.path.dirname(HERE)
sys.path.insert(0, HERE)
import specfile, pipeline

hints = []
for f in ("raw.spec", "map.spec", "set.spec"):
    for fs in specfile.parse(os.path.join(VERIF, "contracts", f)):
        for key, fn in fs.fns.items():
            for gh in fn.ghosts:
                if gh.mandatory or gh.where in ("at-start", "before-loop", "loop-start"):
                    continue   # mandatory anchors end the run when lost; positional anchors cannot be lost by editing a statement
                hints.append((gh.name, key))
closures = []
for f in ("raw.spec", "map.spec", "set.spec"):
    for fs in specfile.parse(os.path.join(VERIF, "contracts", f)):
        for key, fn in fs.fns.items():
            for c in fn.closures:
                closures.append(("closure:%s#%d" % (key, c.ordinal), key, "%s#%d" % (key, c.ordinal)))
out = {}
os.makedirs(os.path.join(VERIF, ".work"), exist_ok=True)
for name, key, opt in [(n, k, ["--skip-ghost", n]) for n, k in hints] + [(n, k, ["--skip-closure", o]) for n, k, o in closures]:
    wd = tempfile.mkdtemp(prefix="hint-", dir=os.path.join(VERIF, ".work"))
    try:
        gen = os.path.join(wd, "gen")
        r = subprocess.run([sys.executable, os.path.join(HERE, "splice.py"), "--repo", "/repo", "--out", gen] + opt,
                           stdout=subprocess.PIPE, stderr=subprocess.STDOUT, text=True)
        if r.returncode != 0:
            out[name] = {"fn": key, "serves": None, "note": "extraction failed without the hint: " + r.stdout[-200:]}
            continue
        text = open(os.path.join(gen, "griddle_verus.rs")).read()
        tags, spans, fns, sections, lines = pipeline.parse_tags(text)
        run = pipeline.run_verus(os.path.join(gen, "griddle_verus.rs"), "on")
        fails = pipeline.classify(run, tags, spans, fns, sections, lines, {})
        names = sorted(set(f["name"] for f in fails[0])) if isinstance(fails, tuple) else sorted(set(f["name"] for f in fails))
        out[name] = {"fn": key, "serves": names}
        print("%-40s %s" % (name, names))
    finally:
        shutil.rmtree(wd, ignore_errors=True)
# closure literals per function on the pinned tree: a function that has gained one contains a closure without a contract
wd = tempfile.mkdtemp(prefix="hint-", dir=os.path.join(VERIF, ".work"))
try:
    subprocess.run([sys.executable, os.path.join(HERE, "splice.py"), "--repo", "/repo", "--out", os.path.join(wd, "gen")], stdout=subprocess.PIPE, stderr=subprocess.STDOUT, text=True)
    meta = json.load(open(os.path.join(wd, "gen", "meta.json")))
    out["__closure_counts__"] = {f["key"]: f.get("closures", 0) for f in meta["functions"]}
finally:
    shutil.rmtree(wd, ignore_errors=True)
json.dump(out, open(os.path.join(VERIF, "contracts", "hint_serves.json"), "w"), indent=1, sort_keys=True)
print("wrote contracts/hint_serves.json (%d hints)" % len(out))
