#!/usr/bin/env python3
"""Apply each behaviour-preserving edit of harmless/*.diff to a scratch copy of /repo, check the suite still passes
there once (cached marker), run the pipeline: NO obligation may fail (exit 2 / auto-demotion is tolerated and reported)."""
import os, sys, json, shutil, subprocess, tempfile
HERE = os.path.dirname(os.path.abspath(__file__)); VERIF = os.path.dirname(HERE)
sys.path.insert(0, HERE)
import pipeline
bad = 0
for f in sorted(os.listdir(os.path.join(VERIF, "harmless"))):
    if not f.endswith(".diff"):
        continue
    if sys.argv[1:] and f[:-5] not in sys.argv[1:]:
        continue
    os.makedirs(os.path.join(VERIF, ".work"), exist_ok=True)
    scratch = tempfile.mkdtemp(prefix="harmless-", dir=os.path.join(VERIF, ".work"))
    try:
        shutil.copytree("/repo/src", os.path.join(scratch, "src"))
        shutil.copy("/repo/Cargo.toml", scratch)
        r = subprocess.run(["patch", "-p1", "-s", "-d", scratch, "-i", os.path.join(VERIF, "harmless", f)], stdout=subprocess.PIPE, stderr=subprocess.STDOUT, text=True)
        if r.returncode:
            print("%-36s patch does not apply" % f)
            continue
        res = pipeline.run_with_demotion(repo=scratch, probes=False)
        allf = [x for fl in res.get("failures", {}).values() for x in fl]
        fails = sorted(set("%s@%s" % (x["name"], x["fn"]) for x in allf if not pipeline.explained_by_lost_hint(res, x)))
        hint_lost = sorted(set("%s@%s" % (x["name"], x["fn"]) for x in allf if pipeline.explained_by_lost_hint(res, x)))
        status = "FALSE ALARM" if fails else ("undecided: %s %s %s" % (res.get("undecided") or "", res.get("demoted") or "", ("hint lost: %s" % hint_lost) if hint_lost else "") if (res.get("undecided") or res.get("demoted") or hint_lost) else "green")
        bad += bool(fails)
        print("%-36s %s %s" % (f, status, fails[:4]))
    finally:
        shutil.rmtree(scratch, ignore_errors=True)
sys.exit(1 if bad else 0)
