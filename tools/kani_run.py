#!/usr/bin/env python3
"""Run bounded Kani harnesses on the real crate (thorough tier). Results are cached per (tree hash, harness crate hash)."""
import os, sys, re, json, time, subprocess, hashlib

HERE = os.path.dirname(os.path.abspath(__file__))
VERIF = os.path.dirname(HERE)
KANI = os.path.join(VERIF, "kani")


def registry():
    return json.load(open(os.path.join(KANI, "harnesses.json")))


def key(repo):
    h = hashlib.sha256()
    for root, _, files in sorted(os.walk(os.path.join(repo, "src"))):
        for fn in sorted(files):
            if fn.endswith(".rs"):
                h.update(open(os.path.join(root, fn), "rb").read())
    h.update(open(os.path.join(repo, "Cargo.toml"), "rb").read())
    h.update(open(os.path.join(KANI, "src", "lib.rs"), "rb").read())
    return h.hexdigest()[:20]


def run(names, repo="/repo", jobs=3, timeout_min=45, use_cache=None):
    if use_cache is None:
        use_cache = os.environ.get("VERIF_KANI_CACHE", "1") != "0"
    cdir = os.path.join(VERIF, ".cache", "kani")
    os.makedirs(cdir, exist_ok=True)
    cfile = os.path.join(cdir, key(repo) + ".json")
    cache = json.load(open(cfile)) if (use_cache and os.path.exists(cfile)) else {}
    out = {n: dict(cache[n], from_cache=True) for n in names if n in cache}
    todo = [n for n in names if n not in out]
    if todo:
        cmd = ["cargo", "kani", "--target-dir", os.path.join(VERIF, ".cache", "kani-target"), "-Z", "unstable-options",
               "--harness-timeout", "%dm" % timeout_min, "-j", str(jobs), "--output-format", "terse", "--exact"]
        for n in todo:
            cmd += ["--harness", "harnesses::" + n]
        env = dict(os.environ, CARGO_NET_OFFLINE="true", RUSTFLAGS="--cfg miri")
        t0 = time.time()
        r = subprocess.run(cmd, cwd=KANI, env=env, stdout=subprocess.PIPE, stderr=subprocess.STDOUT, text=True)
        wall = time.time() - t0
        text = r.stdout
        # split per harness
        blocks = re.split(r"(?m)^(?:Thread \d+: )?Checking harness harnesses::", text)
        build_failed = "error: could not compile" in text or ("error[" in text and "Checking harness" not in text)
        seen = {}
        for b in blocks[1:]:
            name = re.match(r"(\w+)", b).group(1)
            seen[name] = b
        # with -j > 1 the blocks interleave; fall back to whole-text matching per harness
        for n in todo:
            res = {"harness": n, "from_cache": False, "computed_at": time.strftime("%Y-%m-%dT%H:%M:%SZ", time.gmtime()),
                   "batch_wall_s": round(wall, 1), "cmd": " ".join(cmd)}
            if build_failed:
                res["status"] = "build-failed"
                res["detail"] = text[-1500:]
            else:
                m = re.search(r"(?s)Verification failed for - harnesses::%s\b" % n, text)
                ok = re.search(r"(?s)Checking harness harnesses::%s\.\.\..*?VERIFICATION:- (SUCCESSFUL|FAILED)" % n, seen.get(n, "") and ("Checking harness harnesses::" + seen[n]) or text)
                if m or (ok and ok.group(1) == "FAILED"):
                    res["status"] = "failed"
                    fb = re.findall(r"Failed Checks: ([^\n]*)\n(?:\s*File: ([^\n]*))?", seen.get(n, text))
                    res["failed_checks"] = [" @ ".join(x for x in f if x) for f in fb][:10]
                elif ok and ok.group(1) == "SUCCESSFUL":
                    res["status"] = "ok"
                elif re.search(r"harnesses::%s.*timed out|timed out.*harnesses::%s" % (n, n), text):
                    res["status"] = "timeout"
                else:
                    res["status"] = "unknown"
                    res["detail"] = seen.get(n, "")[-800:]
                blk = seen.get(n, "")
                mt = re.search(r"Verification Time: ([0-9.]+)s", blk)
                if mt:
                    res["verification_time_s"] = float(mt.group(1))
                mc = re.search(r"\*\* (\d+) of (\d+) cover properties satisfied", blk)
                if mc:
                    res["covers"] = [int(mc.group(1)), int(mc.group(2))]
                mk = re.search(r"\*\* (\d+) of (\d+) failed", blk)
                if mk:
                    res["checks"] = int(mk.group(2))
                    res["checks_failed"] = int(mk.group(1))
            out[n] = res
            if res["status"] in ("ok", "failed"):
                cache[n] = {k: v for k, v in res.items() if k != "from_cache"}
        json.dump(cache, open(cfile, "w"), indent=1)
    return out


if __name__ == "__main__":
    names = sys.argv[1:] or [h["name"] for h in registry()["harnesses"]]
    res = run(names)
    for n, r in res.items():
        print(n, r["status"], r.get("verification_time_s"), r.get("covers"), r.get("failed_checks", ""))
