#!/usr/bin/env python3
"""Run bounded Kani harnesses on the real crate (thorough tier). Results are cached per (tree hash, harness crate hash)."""
import os, sys, re, json, time, subprocess, hashlib

HERE = os.path.dirname(os.path.abspath(__file__))
VERIF = os.path.dirname(HERE)
KANI = os.path.join(VERIF, "kani")


def registry():
    return json.load(open(os.path.join(KANI, "harnesses.json")))


def key(repo):
    h = hashlib.sha256()
    for root, _, files in sorted(os.walk(os.path.join(repo, "src"))):
        for fn in sorted(files):
            if fn.endswith(".rs"):
                h.update(open(os.path.join(root, fn), "rb").read())
    h.update(open(os.path.join(repo, "Cargo.toml"), "rb").read())
    h.update(open(os.path.join(KANI, "src", "lib.rs"), "rb").read())
    return h.hexdigest()[:20]


def parse_blocks(text):
    """attribute output to harnesses: with -j the result of a harness is printed under `Thread N:` without its name"""
    cur = {}      # thread -> harness
    blocks = {}
    active = None
    single = None
    for line in text.split("\n"):
        m = re.match(r"^(?:Thread (\d+): )?Checking harness harnesses::(\w+)\.\.\.", line)
        if m:
            t = m.group(1)
            if t is None:
                single = m.group(2)
                active = single
            else:
                cur[t] = m.group(2)
                active = None
            blocks.setdefault(m.group(2), "")
            continue
        m = re.match(r"^Thread (\d+):\s*$", line)
        if m:
            active = cur.get(m.group(1))
            continue
        if line.startswith("Manual Harness Summary") or line.startswith("Complete - "):
            active = None
        if active:
            blocks[active] = blocks.get(active, "") + line + "\n"
    return blocks


def run(names, repo="/repo", jobs=3, timeout_min=45, use_cache=None):
    if use_cache is None:
        use_cache = os.environ.get("VERIF_KANI_CACHE", "1") != "0"
    cdir = os.path.join(VERIF, ".cache", "kani")
    os.makedirs(cdir, exist_ok=True)
    cfile = os.path.join(cdir, key(repo) + ".json")
    cache = json.load(open(cfile)) if (use_cache and os.path.exists(cfile)) else {}
    out = {n: dict(cache[n], from_cache=True) for n in names if n in cache}
    todo = [n for n in names if n not in out]
    if todo:
        cmd = ["cargo", "kani", "--target-dir", os.path.join(VERIF, ".cache", "kani-target"), "-Z", "unstable-options",
               "--harness-timeout", "%dm" % timeout_min, "-j", str(jobs), "--output-format", "terse", "--exact"]
        for n in todo:
            cmd += ["--harness", "harnesses::" + n]
        env = dict(os.environ, CARGO_NET_OFFLINE="true", RUSTFLAGS="--cfg miri")
        t0 = time.time()
        r = subprocess.run(cmd, cwd=KANI, env=env, stdout=subprocess.PIPE, stderr=subprocess.STDOUT, text=True)
        wall = time.time() - t0
        text = r.stdout
        build_failed = "error: could not compile" in text or ("error[" in text and "Checking harness" not in text)
        blocks = parse_blocks(text)
        for n in todo:
            res = {"harness": n, "from_cache": False, "computed_at": time.strftime("%Y-%m-%dT%H:%M:%SZ", time.gmtime()),
                   "batch_wall_s": round(wall, 1), "cmd": " ".join(cmd)}
            blk = blocks.get(n)
            if build_failed:
                res["status"] = "build-failed"
                res["detail"] = text[-1500:]
            elif blk is None:
                res["status"] = "unknown"
                res["detail"] = "no result block for this harness"
            else:
                if "CBMC timed out" in blk or "timed out" in blk:
                    res["status"] = "timeout"
                elif "out of memory" in blk:
                    res["status"] = "out-of-memory"
                elif "VERIFICATION:- SUCCESSFUL" in blk:
                    res["status"] = "ok"
                elif "VERIFICATION:- FAILED" in blk:
                    res["status"] = "failed"
                    res["failed_checks"] = [x.strip() for x in re.findall(r"Failed Checks: ([^\n]*)", blk)][:10]
                    if not res["failed_checks"]:
                        res["status"] = "unknown"
                        res["detail"] = blk[-600:]
                else:
                    res["status"] = "unknown"
                    res["detail"] = blk[-600:]
                mt = re.search(r"Verification Time: ([0-9.]+)s", blk)
                if mt:
                    res["verification_time_s"] = float(mt.group(1))
                mc = re.search(r"\*\* (\d+) of (\d+) cover properties satisfied", blk)
                if mc:
                    res["covers"] = [int(mc.group(1)), int(mc.group(2))]
                mk = re.search(r"\*\* (\d+) of (\d+) failed", blk)
                if mk:
                    res["checks"] = int(mk.group(2))
                    res["checks_failed"] = int(mk.group(1))
            out[n] = res
            if res["status"] in ("ok", "failed"):
                cache[n] = {k: v for k, v in res.items() if k != "from_cache"}
        json.dump(cache, open(cfile, "w"), indent=1)
    return out


if __name__ == "__main__":
    names = sys.argv[1:] or [h["name"] for h in registry()["harnesses"]]
    res = run(names)
    for n, r in res.items():
        print(n, r["status"], r.get("verification_time_s"), r.get("covers"), r.get("failed_checks", ""))
